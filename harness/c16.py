"""C16 — equality and serialisation depend only on content, never on representation.

Pairs / families of real biom Tables are built to have equal content through different routes
(constructor input forms, sparse layouts, sparse inputs with explicit zeros or unsorted indices,
operation histories ending in the same content) or to differ in exactly one value / ID / order /
metadata entry / type.  The six comparisons (==, != both ways, descriptive_equality both ways) are
observed before and after every step of an interleaving of read accessors; contents are read back
through the public API; exports (TSV, JSON, HDF5 re-read with h5py) and per-ID / per-cell queries
are collected.  Lean evaluates `holdsPair` / `holdsFamily` / `holdsKernel` on those observations and
runs the model (`construct`, `eliminateZeros`, `tableEq`, `describe`, `Acc.apply`, `dataEq`) on the
same inputs; the layout every real table holds at the end is checked against the scipy contract."""
import copy
import itertools
import json
import os

from . import core

TMP = "/tmp/c16"

DESC = {
    "Tables appear equal": "equal",
    "Tables are not the same type": "type",
    "Observation IDs are not the same": "obs_ids",
    "Sample IDs are not the same": "samp_ids",
    "Observation metadata are not the same": "obs_md",
    "Sample metadata are not the same": "samp_md",
    "Data elements are not the same": "data",
    "Tables are not of comparable classes": "class",
}

CTOR_SPARSE = ["csr", "csc", "coo", "lil", "csr_unsorted", "csr_zeros"]
FORMS = ["lol_dense", "lol_coo", "lol_coo_zeros", "dict", "dict_zeros", "list_nparray", "list_dict",
         "list_sparse", "empty_list", "md_empty_form", "md_none_form",
         # IDs handed over as numpy arrays: fixed width much wider than needed / object dtype / tuple
         "ids_wide_dtype", "ids_object_dtype", "ids_tuple"]
OP_ROUTES = ["sort_roundtrip", "transpose2", "filter_all_obs", "filter_all_samp", "subsample_full_samp",
             "subsample_full_obs", "copy", "md_reordered", "md_completed_later"]
# histories that change the content; the partner is the dense construction of whatever content they reached
CHANGING_ROUTES = ["subsample_partial_samp", "subsample_partial_obs", "filter_some_obs",
                   # ONE non-monotone reordering: the CSR layout keeps unsorted column indices
                   "sort_samp_once", "sort_obs_once",
                   # a new metadata category on one ID only
                   "add_md_one_obs", "add_md_one_samp"]
ALL_ROUTES = ["dense"] + CTOR_SPARSE + FORMS + OP_ROUTES

ACCESSORS = ["nnz", "data_obs", "data_samp", "iter_obs", "iter_samp", "matrix_data", "get_value", "sum",
             "metadata",
             # exports and conversions are read-only too
             "to_tsv", "to_tsv_key", "to_json", "to_hdf5", "to_dataframe", "md_df_obs", "md_df_samp", "str", "repr",
             # an iteration SUSPENDED after its first vector while another read flips the layout, then resumed
             "iter_samp_flip", "iter_obs_flip"]
# one representative per layout effect (nnz / to-CSR / to-CSC / COO-only / none)
ACC_CLASSES = {"nnz": ["nnz"], "vecObs": ["data_obs", "iter_obs", "to_tsv_key", "str", "to_tsv", "iter_obs_flip"],
               "vecSamp": ["data_samp", "iter_samp", "to_json", "to_hdf5", "iter_samp_flip"],
               "getValue": ["get_value"],
               "plain": ["matrix_data", "sum", "metadata", "to_dataframe", "md_df_obs", "md_df_samp", "repr"]}
MAY_RAISE = {"to_hdf5": ValueError, "md_df_obs": KeyError, "md_df_samp": KeyError}

VALUE_CLASSES = ("count", "smallcount", "dyadic", "neg")


# ----------------------------------------------------------------------------- layouts
def flat(m):
    """flat arrays of a scipy matrix, row-major for anything but CSC"""
    fmt = m.getformat()
    if fmt not in ("csr", "csc"):
        m = m.tocsr()
        fmt = "csr"
    major = 0 if fmt == "csr" else 1
    return {"nMajor": int(m.shape[major]), "nMinor": int(m.shape[1 - major]),
            "indptr": [int(x) for x in m.indptr], "indices": [int(x) for x in m.indices],
            "data": [core.frac(x) for x in m.data]}


def flat_rowmajor(m):
    return flat(m.tocsr().copy() if m.getformat() != "csr" else m)


def fmt_label(m):
    f = m.getformat()
    return f if f in ("csr", "csc", "coo") else "other:" + f


def arr_of(spec):
    import numpy as np
    return np.array(spec["rows"], dtype=float).reshape(len(spec["obs"]), len(spec["samp"]))


def sparse_input(spec, route):
    """the matrix core.build(spec, route) hands to the constructor (same construction)"""
    import numpy as np
    import scipy.sparse as sp
    arr = arr_of(spec)
    if route == "csr":
        return sp.csr_matrix(arr)
    if route == "csc":
        return sp.csc_matrix(arr)
    if route == "coo":
        return sp.coo_matrix(arr)
    if route == "lil":
        return sp.lil_matrix(arr)
    if route == "csr_unsorted":
        m = sp.csr_matrix(arr)
        for i in range(m.shape[0]):
            s, e = m.indptr[i], m.indptr[i + 1]
            m.indices[s:e] = m.indices[s:e][::-1].copy()
            m.data[s:e] = m.data[s:e][::-1].copy()
        m.has_sorted_indices = False
        return m
    if route == "csr_zeros":
        rows, cols, vals = [], [], []
        for i in range(arr.shape[0]):
            for j in range(arr.shape[1]):
                rows.append(i); cols.append(j); vals.append(arr[i, j])
        return sp.csr_matrix((np.array(vals, dtype=float), (np.array(rows, dtype=int), np.array(cols, dtype=int))),
                             shape=arr.shape)
    raise ValueError(route)


class Skip(Exception):
    """route not applicable to this spec"""


def form_input(spec, form):
    """(data argument, extra kwargs, metadata overrides) of a non-sparse constructor input form"""
    import numpy as np
    import scipy.sparse as sp
    arr = arr_of(spec)
    n, m = arr.shape
    nz = [(i, j) for i in range(n) for j in range(m) if arr[i, j] != 0]
    allc = [(i, j) for i in range(n) for j in range(m)]
    kw, mdo = {}, {}
    if form == "dense":
        data = arr
    elif form == "lol_dense":
        data = arr.tolist(); kw["input_is_dense"] = True
    elif form == "lol_coo":
        if not nz:
            raise Skip()
        data = [[i, j, float(arr[i, j])] for i, j in nz]
    elif form == "lol_coo_zeros":
        data = [[i, j, float(arr[i, j])] for i, j in allc]
    elif form == "dict":
        data = {(i, j): float(arr[i, j]) for i, j in nz}
    elif form == "dict_zeros":
        data = {(i, j): float(arr[i, j]) for i, j in allc}
    elif form == "list_nparray":
        data = [arr[i].copy() for i in range(n)]
    elif form == "list_dict":
        # the form carries no shape: the column count is inferred from the largest column key
        if not any(arr[i, m - 1] != 0 for i in range(n)):
            raise Skip()
        data = [{(0, j): float(arr[i, j]) for j in range(m) if arr[i, j] != 0} for i in range(n)]
    elif form == "list_sparse":
        data = [sp.csr_matrix(arr[i:i + 1]) for i in range(n)]
    elif form == "empty_list":
        if nz:
            raise Skip()
        data = []
    elif form in ("ids_wide_dtype", "ids_object_dtype", "ids_tuple"):
        data = arr
        mdo["ids_form"] = form
    elif form in ("md_empty_form", "md_none_form"):
        # absent metadata spelled as a list of empty / None entries
        if spec.get("omd") is not None and spec.get("smd") is not None:
            raise Skip()
        data = arr
        fill = {} if form == "md_empty_form" else None
        if spec.get("omd") is None:
            mdo["omd"] = [copy.copy(fill) for _ in range(n)]
        if spec.get("smd") is None:
            mdo["smd"] = [copy.copy(fill) for _ in range(m)]
    else:
        raise ValueError(form)
    return data, kw, mdo


def md_in(md):
    """metadata argument as the model's input form: None | [None | {key: canonical text}]"""
    if md is None:
        return None
    return [None if e is None else core.canon_md_entry(e) for e in md]


def subsample_ok(spec, axis):
    arr = arr_of(spec)
    if arr.size == 0 or (arr != arr.astype(int)).any() or (arr < 0).any():
        return None
    tot = arr.sum(axis=0 if axis == "sample" else 1)
    oth = arr.sum(axis=1 if axis == "sample" else 0)
    if len(set(tot.tolist())) != 1 or tot[0] <= 0 or (oth <= 0).any():
        return None
    return int(tot[0])


INPLACE_OPS = ["pa", "norm", "scale", "rank", "swap_ids"]


def inplace_route(base, pre, op, axis):
    return "inplace:%s:%d:%s:%s" % (base, pre, op, axis)


def apply_inplace(t, spec, pre, op, axis):
    """optional reads along `axis` (pre: 0 none, 1 data() of every ID, 2 iter + data), then ONE in-place change
    along the same axis; nothing is asked of the table afterwards"""
    import numpy as np
    ids = [x for x in t.ids(axis=axis)]
    arr = arr_of(spec)
    if op == "norm":
        tot = arr.sum(axis=1 if axis == "observation" else 0)
        if arr.size == 0 or (tot == 0).any() or (arr < 0).any():
            raise Skip()
    if op == "swap_ids" and len(ids) < 2:
        raise Skip()
    if pre >= 2:
        list(t.iter(axis=axis))
    if pre >= 1:
        for i in ids:
            t.data(i, axis=axis)
            t.data(i, axis=axis, dense=False)
    if op == "pa":
        t.pa(inplace=True)
    elif op == "norm":
        t.norm(axis=axis, inplace=True)
    elif op == "scale":
        t.transform(lambda d, i, m: d * 2, axis=axis, inplace=True)
    elif op == "rank":
        t.rankdata(axis=axis, inplace=True)
    elif op == "swap_ids":
        t.update_ids({ids[0]: ids[-1], ids[-1]: ids[0]}, axis=axis, strict=False, inplace=True)
    else:
        raise ValueError(op)
    return t


DERIVATIONS = ["copy", "sort_order", "sort", "transpose", "filter_copy", "ctor_from_parts", "pa_copy", "norm_copy",
               "subsample_by_id", "update_ids_copy"]
ALIAS_OPS = ["scale", "pa", "swap_ids", "rename_ids", "add_md", "del_md", "set_md_key", "poke_matrix"]


def alias_route(base, derive, op):
    return "aliased:%s:%s:%s" % (base, derive, op)


def derive_table(src, how):
    from biom import Table
    if how == "copy":
        return src.copy()
    if how == "sort_order":
        return src.sort_order(list(src.ids()))
    if how == "sort":
        return src.sort(axis="observation")
    if how == "transpose":
        return src.transpose()
    if how == "filter_copy":
        return src.filter(lambda v, i, m: True, axis="observation", inplace=False)
    if how == "ctor_from_parts":
        return Table(src.matrix_data, src.ids(axis="observation"), src.ids(), src.metadata(axis="observation"),
                     src.metadata(), type=src.type)
    if how == "pa_copy":
        return src.pa(inplace=False)
    if how == "norm_copy":
        return src.transform(lambda d, i, m: d, axis="sample", inplace=False)
    if how == "subsample_by_id":
        return src.subsample(len(src.ids()), by_id=True, seed=3)
    if how == "update_ids_copy":
        return src.update_ids({i: i for i in src.ids()}, inplace=False)
    raise ValueError(how)


def alias_mutate(d, op):
    """an in-place update of the derived table `d`"""
    obs = list(d.ids(axis="observation"))
    samp = list(d.ids())
    if op == "scale":
        d.transform(lambda v, i, m: v * 3 + 1, axis="observation", inplace=True)
    elif op == "pa":
        d.pa(inplace=True)
    elif op == "swap_ids":
        ax, ids = ("observation", obs) if len(obs) > 1 else ("sample", samp)
        if len(ids) < 2:
            raise Skip()
        d.update_ids({ids[0]: ids[-1], ids[-1]: ids[0]}, axis=ax, strict=False, inplace=True)
    elif op == "rename_ids":
        d.update_ids({i: i + "_renamed_to_something_longer" for i in obs}, axis="observation", inplace=True)
        d.update_ids({i: "Z" + i for i in samp}, axis="sample", inplace=True)
    elif op == "add_md":
        d.add_metadata({i: {"grp": "ALIAS", "new_cat": k} for k, i in enumerate(obs)}, axis="observation")
        d.add_metadata({i: {"grp": "ALIAS", "new_cat": k} for k, i in enumerate(samp)}, axis="sample")
    elif op == "del_md":
        if d.metadata(axis="observation") is None and d.metadata() is None:
            raise Skip()
        for ax in ("observation", "sample"):
            md = d.metadata(axis=ax)
            if md is not None:
                keys = sorted({k for e in md for k in e})
                d.del_metadata(keys=keys[:1] or None, axis=ax)
    elif op == "set_md_key":
        if d.metadata(axis="observation") is None and d.metadata() is None:
            raise Skip()
        for ax, ids in (("observation", obs), ("sample", samp)):
            if d.metadata(axis=ax) is not None:
                for i in ids:
                    e = d.metadata(i, axis=ax)
                    for k in list(e):
                        e[k] = "MUT"
                    e["alias_key"] = 1
    elif op == "poke_matrix":
        m = d.matrix_data
        if m.nnz == 0:
            raise Skip()
        m.data[:] = m.data * 5 + 1
    else:
        raise ValueError(op)


XFORM_CHAINS = ["shift0", "shift1", "shift2", "center", "neg", "zero_some", "neg+zero_some", "shift1+neg", "shift0+pa",
                "shift1+rank", "shift1+norm", "shift2+zero_some", "zero_some+shift0", "shift0+pa+subsample",
                "neg+shift1+rank", "shift1+scale", "zero_all_but_one+neg", "shift1+swap_ids"]


def xform_route(base, pre, chain, axis, inplace):
    return "xform:%s:%d:%s:%s:%d" % (base, pre, chain, axis, 1 if inplace else 0)


def apply_xform(t, pre, chain, axis, inplace):
    """optional reads along `axis`, then a chain of transforms whose results mix zeros with negative and positive
    values and all-zero vectors (v - c for a stored value c, v * 0 on some IDs, sign flips), followed by
    norm / pa / rankdata / subsample; in place or through inplace=False.  NOTHING is asked of the result here."""
    import numpy as np
    ids = [x for x in t.ids(axis=axis)]
    if t.shape[0] == 0 or t.shape[1] == 0:
        raise Skip()
    if pre >= 2:
        list(t.iter(axis=axis))
    if pre >= 1:
        for i in ids:
            t.data(i, axis=axis)

    def tr(f):
        r = t.transform(f, axis=axis, inplace=bool(inplace))
        return t if inplace else r
    for op in chain.split("+"):
        vals = sorted({float(x) for x in t.matrix_data.data if x != 0})
        if op.startswith("shift"):
            if not vals:
                raise Skip()
            k = int(op[5:])
            c = vals[min(len(vals) - 1, [len(vals) // 2, len(vals) - 1, 0][k])]
            t = tr(lambda v, i, m, c=c: v - c)
        elif op == "center":
            t = tr(lambda v, i, m: v - (np.round(v.mean()) if len(v) else 0))
        elif op == "neg":
            t = tr(lambda v, i, m: -v)
        elif op == "zero_some":
            some = set(ids[::2])
            t = tr(lambda v, i, m, some=some: v * 0 if i in some else v)
        elif op == "zero_all_but_one":
            t = tr(lambda v, i, m, keep=ids[-1]: v if i == keep else v * 0)
        elif op == "scale":
            t = tr(lambda v, i, m: v * 2)
        elif op == "pa":
            t = t.pa(inplace=True) if inplace else t.pa(inplace=False)
        elif op == "rank":
            t = t.rankdata(axis=axis, inplace=True) if inplace else t.rankdata(axis=axis, inplace=False)
        elif op == "norm":
            d = t.matrix_data.toarray()
            tot = d.sum(axis=1 if axis == "observation" else 0)
            if (tot == 0).any():
                raise Skip()
            t = t.norm(axis=axis, inplace=True) if inplace else t.norm(axis=axis, inplace=False)
        elif op == "subsample":
            d = t.matrix_data.toarray()
            if d.size == 0 or (d < 0).any() or (d != d.astype(int)).any() or d.sum() == 0:
                raise Skip()
            t = t.subsample(1, axis=axis, seed=2)
        elif op == "swap_ids":
            if len(ids) < 2:
                raise Skip()
            t = t.update_ids({ids[0]: ids[-1], ids[-1]: ids[0]}, axis=axis, strict=False, inplace=bool(inplace))
        else:
            raise ValueError(op)
        if t.shape[0] == 0 or t.shape[1] == 0:
            raise Skip()
    if not np.isfinite(t.matrix_data.data).all():
        raise Skip()
    return t


IDENT_OPS = ["filter_list_rev", "filter_tuple_rot", "filter_array_shuf", "filter_set", "filter_frozenset", "filter_dict",
             "filter_gen", "filter_repeat", "filter_pred", "filter_keysview", "filter_objarray", "filter_table_order",
             "filter_invert_empty", "filter_invert_pred_false", "sort_order_same", "update_ids_identity",
             "update_ids_empty_map", "transpose_twice", "head_all", "transform_identity", "partition_one", "add_md_empty",
             "del_md_none", "remove_empty", "subsample_all_ids", "align_to_twin", "copy"]
# (concat([]) is NOT in the list: concat re-orders the other axis into sorted order by design, see C10)


def ident_route(base, ops, axis, inplace, k):
    return "ident|%s|%s|%s|%d|%d" % (base, ops, axis, 1 if inplace else 0, k)


def apply_ident(t, op, axis, inplace, k):
    """one operation that must leave the content as it is (selection of everything, reordering into the current
    order, renaming IDs to themselves, ...); `k` varies orders and containers"""
    import random as _random
    import numpy as np
    ids = [x for x in t.ids(axis=axis)]
    r = _random.Random(k)
    rev = ids[::-1]
    rot = ids[1:] + ids[:1]
    shuf = list(ids)
    r.shuffle(shuf)
    inpl = bool(inplace)

    def flt(keep, **kw):
        res = t.filter(keep, axis=axis, inplace=inpl, **kw)
        return t if inpl else res
    if op == "filter_list_rev":
        return flt(list(rev))
    if op == "filter_tuple_rot":
        return flt(tuple(rot))
    if op == "filter_array_shuf":
        return flt(np.array(shuf))
    if op == "filter_objarray":
        return flt(np.array(rev, dtype=object))
    if op == "filter_set":
        return flt(set(ids))
    if op == "filter_frozenset":
        return flt(frozenset(ids))
    if op == "filter_dict":
        return flt({i: None for i in shuf})
    if op == "filter_keysview":
        return flt({i: None for i in rev}.keys())
    if op == "filter_gen":
        return flt(i for i in shuf)
    if op == "filter_repeat":
        return flt(rev + shuf[:2] + rot[:1])
    if op == "filter_table_order":
        return flt(list(ids))
    if op == "filter_pred":
        return flt(lambda v, i, m: True)
    if op == "filter_invert_empty":
        return flt([], invert=True)
    if op == "filter_invert_pred_false":
        return flt(lambda v, i, m: False, invert=True)
    if op == "sort_order_same":
        res = t.sort_order([ids, tuple(ids), np.array(ids)][k % 3], axis=axis)
        res.type = t.type
        return res
    if op == "update_ids_identity":
        res = t.update_ids({i: i for i in shuf}, axis=axis, strict=bool(k % 2), inplace=inpl)
        return t if inpl else res
    if op == "update_ids_empty_map":
        res = t.update_ids({}, axis=axis, strict=False, inplace=inpl)
        return t if inpl else res
    if op == "transpose_twice":
        res = t.transpose().transpose()
        res.type = t.type
        return res
    if op == "head_all":
        return t.head(n=t.shape[0] + (k % 2), m=t.shape[1] + (k % 3))
    if op == "transform_identity":
        res = t.transform(lambda v, i, m: v, axis=axis, inplace=inpl)
        return t if inpl else res
    if op == "partition_one":
        parts = list(t.partition(lambda i, m: "all", axis=axis))
        if len(parts) != 1:
            raise Skip()
        res = parts[0][1]
        res.type = t.type
        return res
    if op == "add_md_empty":
        t.add_metadata({}, axis=axis)
        return t
    if op == "del_md_none":
        t.del_metadata(keys=[], axis=axis)
        return t
    if op == "remove_empty":
        d = t.matrix_data.toarray()
        if (abs(d).sum(axis=0) == 0).any() or (abs(d).sum(axis=1) == 0).any():
            raise Skip()
        res = t.remove_empty(axis="whole", inplace=inpl)
        return t if inpl else res
    if op == "concat_nothing":
        res = t.concat([], axis=axis)
        res.type = t.type
        return res
    if op == "subsample_all_ids":
        # subsample is specified for counts: it drops vectors whose sum is not positive
        d = t.matrix_data.toarray()
        if (d < 0).any() or (d.sum(axis=0) <= 0).any() or (d.sum(axis=1) <= 0).any():
            raise Skip()
        res = t.subsample(len(ids), axis=axis, by_id=True, seed=k)
        res.type = t.type
        return res
    if op == "align_to_twin":
        res = t.align_to(t.copy(), axis=["both", "detect", axis][k % 3])
        res.type = t.type
        return res
    if op == "copy":
        return t.copy()
    raise ValueError(op)


REFUSED_OPS = ["update_ids_dup_new", "update_ids_collide_retained", "update_ids_strict_missing", "filter_unknown_id",
               "filter_pred_raises", "del_md_bad_axis", "norm_bad_axis", "subsample_negative", "sort_order_unknown",
               "add_md_bad_axis", "update_ids_dup_new_other_axis"]


class _Boom(Exception):
    pass


def refused_route(base, ops, axis, k):
    return "refused|%s|%s|%s|%d" % (base, ops, axis, k)


def apply_refused(t, op, axis, k):
    """an in-place call that the library must refuse; the exception is caught, as a caller validating user input
    would.  Returns whether it was refused."""
    ids = [x for x in t.ids(axis=axis)]
    other_axis = "sample" if axis == "observation" else "observation"
    oids = [x for x in t.ids(axis=other_axis)]

    def boom(v, i, m):
        if i == ids[-1]:
            raise _Boom()
        return True
    try:
        if op == "update_ids_dup_new":
            if len(ids) < 2:
                raise Skip()
            t.update_ids({ids[0]: "same new name", ids[-1]: "same new name"}, axis=axis, strict=False, inplace=True)
        elif op == "update_ids_dup_new_other_axis":
            if len(oids) < 2:
                raise Skip()
            t.update_ids({i: "x" for i in oids}, axis=other_axis, inplace=True)
        elif op == "update_ids_collide_retained":
            if len(ids) < 2:
                raise Skip()
            t.update_ids({ids[k % (len(ids) - 1)]: ids[-1]}, axis=axis, strict=False, inplace=True)
        elif op == "update_ids_strict_missing":
            if len(ids) < 2:
                raise Skip()
            t.update_ids({ids[0]: "renamed"}, axis=axis, strict=True, inplace=True)
        elif op == "filter_unknown_id":
            t.filter(ids[:1] + ["\x00 no such id"], axis=axis, inplace=True)
        elif op == "filter_pred_raises":
            t.filter(boom, axis=axis, inplace=True)
        elif op == "del_md_bad_axis":
            t.del_metadata(keys=None, axis="no such axis")
        elif op == "add_md_bad_axis":
            t.add_metadata({ids[0]: {"k": "v"}}, axis="no such axis")
        elif op == "norm_bad_axis":
            t.norm(axis="no such axis", inplace=True)
        elif op == "subsample_negative":
            t.subsample(-1, axis=axis)
        elif op == "sort_order_unknown":
            t.sort_order(ids[:-1] + ["\x00 no such id"], axis=axis)
        else:
            raise ValueError(op)
    except Skip:
        raise
    except Exception:
        return True
    return False


def reorder_keys(md, which):
    """the same entries with the key insertion order reversed on the IDs in `which` (never the first ID)"""
    out = []
    for i, e in enumerate(md):
        items = list(e.items())
        out.append(dict(reversed(items)) if (i in which and i > 0) else dict(items))
    return out


def reorderable(md):
    return md is not None and len(md) >= 2 and any(len(e) >= 2 for e in md[1:])


def build_operand(spec, route, need_model=True):
    """-> (real Table, model input JSON, facts about the constructor input)"""
    import scipy.sparse as sp
    from biom import Table
    base = {"type": spec.get("type"), "obs": list(spec["obs"]), "samp": list(spec["samp"])}
    facts = {}
    if route in CTOR_SPARSE:
        inp = sparse_input(spec, route)
        conv = inp.tocsr()
        mi = dict(base, omd_in=md_in(spec.get("omd")), smd_in=md_in(spec.get("smd")),
                  layout=flat(conv), ctor=True, fmt="csr")
        facts = {"in_stored_zeros": int((conv.data == 0).sum()),
                 "in_sorted": bool(sp.csr_matrix((conv.data, conv.indices, conv.indptr), shape=conv.shape)
                                   .has_sorted_indices)}
        t = core.build(spec, route)
        return t, mi, facts
    if route == "dense" or route in FORMS:
        data, kw, mdo = form_input(spec, route)
        shape = (len(spec["obs"]), len(spec["samp"]))
        conv = Table._to_sparse(copy.deepcopy(data), input_is_dense=kw.get("input_is_dense", False), shape=shape)
        omd = mdo.get("omd", copy.deepcopy(spec.get("omd")))
        smd = mdo.get("smd", copy.deepcopy(spec.get("smd")))
        c2 = conv.tocsr()
        mi = dict(base, omd_in=md_in(omd), smd_in=md_in(smd), layout=flat(c2), ctor=True, fmt=fmt_label(conv))
        facts = {"in_stored_zeros": int((c2.data == 0).sum()), "in_sorted": True}
        if route == "dense":
            t = core.build(spec, "dense")
        else:
            import numpy as np
            idf = mdo.get("ids_form")
            wrap = {None: list, "ids_tuple": tuple,
                    "ids_wide_dtype": lambda x: np.array(list(x), dtype="<U%d" % (max([len(i) for i in x] + [1]) + 23)),
                    "ids_object_dtype": lambda x: np.array(list(x), dtype=object)}[idf]
            t = Table(data, wrap(spec["obs"]), wrap(spec["samp"]), observation_metadata=omd, sample_metadata=smd,
                      type=spec.get("type"), **kw)
        return t, mi, facts
    if route.startswith("aliased:"):
        # the SOURCE of a derivation is the operand; the derived table is updated in place and kept alive
        _, base_route, how, op = route.split(":")
        src, mi, facts = build_operand(spec, base_route, need_model=True)
        if src.shape[0] == 0 or src.shape[1] == 0:
            raise Skip()
        d = derive_table(src, how)
        alias_mutate(d, op)
        src._c16_keep_alive = d
        if mi is not None and not mi.get("ctor"):
            mi = dict(mi, layout=flat_rowmajor(src.matrix_data), fmt=fmt_label(src.matrix_data))
        elif mi is not None:
            # derivations are read accessors of the source (they may re-lay it): the representation it has now
            # is the model's input, the identity fields stay those of the construction
            mi = dict(mi, layout=flat_rowmajor(src.matrix_data), fmt=fmt_label(src.matrix_data), ctor=False)
        return src, mi, facts
    if route.startswith("ident|"):
        _, base_route, ops, axis, inpl, k = route.split("|")
        t, mi, facts = build_operand(spec, base_route, need_model=True)
        if t.shape[0] == 0 or t.shape[1] == 0:
            raise Skip()
        for j, op in enumerate(ops.split("+")):
            t = apply_ident(t, op, axis, int(inpl), int(k) + j)
        if not need_model:
            return t, None, facts
        # identity fields stay those of the base route; the representation reached is the model's input
        mi = dict(mi, layout=flat_rowmajor(t.matrix_data), fmt=fmt_label(t.matrix_data), ctor=False)
        return t, mi, {}
    if route.startswith("refused|"):
        _, base_route, ops, axis, k = route.split("|")
        t, mi, facts = build_operand(spec, base_route, need_model=True)
        if t.shape[0] == 0 or t.shape[1] == 0:
            raise Skip()
        for j, op in enumerate(ops.split("+")):
            if not apply_refused(t, op, axis, int(k) + j):
                raise Skip()            # accepted after all: not a refusal, nothing to judge here
        if not need_model:
            return t, None, facts
        mi = dict(mi, layout=flat_rowmajor(t.matrix_data), fmt=fmt_label(t.matrix_data), ctor=False)
        return t, mi, {}
    if route.startswith("xform:"):
        _, base_route, pre, chain, axis, inpl = route.split(":")
        t = build_operand(spec, base_route, need_model=False)[0]
        t = apply_xform(t, int(pre), chain, axis, int(inpl))
        if not need_model:
            return t, None, facts
        # (table_obs reads ids / metadata / matrix_data only: nothing that could heal a stale layout)
        c = core.table_obs(t)
        mi = {"type": c["type"], "obs": c["obs"], "samp": c["samp"], "omd_in": c["omd"], "smd_in": c["smd"],
              "layout": flat_rowmajor(t.matrix_data), "ctor": False, "fmt": fmt_label(t.matrix_data)}
        return t, mi, facts
    if route.startswith("inplace:"):
        _, base_route, pre, op, axis = route.split(":")
        t = build_operand(spec, base_route, need_model=False)[0]
        apply_inplace(t, spec, int(pre), op, axis)
        if not need_model:
            return t, None, facts
        c = core.table_obs(t)
        mi = {"type": c["type"], "obs": c["obs"], "samp": c["samp"], "omd_in": c["omd"], "smd_in": c["smd"],
              "layout": flat_rowmajor(t.matrix_data), "ctor": False, "fmt": fmt_label(t.matrix_data)}
        return t, mi, facts
    # operation histories ending in the same content: the representation reached is an input of the model
    if route == "md_reordered":
        # constructor literals whose keys come in another order on some IDs
        if not (reorderable(spec.get("omd")) or reorderable(spec.get("smd"))):
            raise Skip()
        s2 = copy.deepcopy(spec)
        for ax in ("omd", "smd"):
            if reorderable(s2.get(ax)):
                s2[ax] = reorder_keys(s2[ax], set(range(1, len(s2[ax]), 2)) | {len(s2[ax]) - 1})
        t = core.build(s2, "dense")
    elif route == "md_completed_later":
        # one ID first lacks its FIRST key, which add_metadata supplies afterwards (so it ends up last)
        cand = [(ax, i) for ax in ("omd", "smd") if spec.get(ax) for i, e in enumerate(spec[ax]) if i > 0 and len(e) >= 2]
        if not cand:
            raise Skip()
        ax, i = cand[len(cand) // 2]
        s2 = copy.deepcopy(spec)
        k0 = next(iter(s2[ax][i]))
        v0 = s2[ax][i].pop(k0)
        t = core.build(s2, "dense")
        ids = spec["obs"] if ax == "omd" else spec["samp"]
        t.add_metadata({ids[i]: {k0: v0}}, axis="observation" if ax == "omd" else "sample")
    elif route in ("sort_roundtrip", "transpose2"):
        t = core.build(spec, route)
    elif route == "copy":
        t = core.build(spec, "dense").copy()
    elif route in ("filter_all_obs", "filter_all_samp"):
        t0 = core.build(spec, "csr_unsorted")
        t = t0.filter(lambda v, i, md: True, axis="observation" if route.endswith("obs") else "sample",
                      inplace=False)
    elif route in ("subsample_full_samp", "subsample_full_obs"):
        axis = "sample" if route.endswith("samp") else "observation"
        n = subsample_ok(spec, axis)
        if n is None:
            raise Skip()
        t = core.build(spec, "dense").subsample(n, axis=axis, seed=1)
        t.type = spec.get("type")
    elif route in ("subsample_partial_samp", "subsample_partial_obs"):
        axis = "sample" if route.endswith("samp") else "observation"
        arr = arr_of(spec)
        if arr.size == 0 or (arr != arr.astype(int)).any() or (arr < 0).any() or arr.sum() == 0:
            raise Skip()
        tot = arr.sum(axis=0 if axis == "sample" else 1)
        n = max(1, int(tot.max()) // 2)
        t = core.build(spec, "csc" if axis == "sample" else "dense").subsample(n, axis=axis, seed=int(arr.sum()) % 7)
        if t.shape[0] == 0 or t.shape[1] == 0:
            raise Skip()
    elif route in ("sort_samp_once", "sort_obs_once"):
        axis = "sample" if route == "sort_samp_once" else "observation"
        ids = list(spec["samp"] if axis == "sample" else spec["obs"])
        if len(ids) < 2:
            raise Skip()
        perm = ids[1:][::-1] + ids[:1] if len(ids) > 2 else ids[::-1]
        t = core.build(spec, "dense").sort_order(perm, axis=axis)
        t.type = spec.get("type")
    elif route in ("add_md_one_obs", "add_md_one_samp"):
        axis = "sample" if route.endswith("samp") else "observation"
        ids = list(spec["samp"] if axis == "sample" else spec["obs"])
        t = core.build(spec, "csr")
        t.add_metadata({ids[len(ids) // 2]: {"extra_cat": "v"}}, axis=axis)
    elif route == "filter_some_obs":
        if len(spec["obs"]) < 2:
            raise Skip()
        keep = set(spec["obs"][::2])
        t = core.build(spec, "csr_zeros").filter(lambda v, i, md: i in keep, axis="observation", inplace=False)
    else:
        raise ValueError(route)
    if route in CHANGING_ROUTES:
        c = core.table_obs(t)
        base = {"type": c["type"], "obs": c["obs"], "samp": c["samp"]}
        mi = dict(base, omd_in=c["omd"], smd_in=c["smd"], layout=flat_rowmajor(t.matrix_data), ctor=False,
                  fmt=fmt_label(t.matrix_data))
        return t, mi, facts
    mi = dict(base, omd_in=md_in(spec.get("omd")), smd_in=md_in(spec.get("smd")),
              layout=flat_rowmajor(t.matrix_data), ctor=False, fmt=fmt_label(t.matrix_data))
    return t, mi, facts


def spec_of_table(t):
    """a generator spec with the content a real table has now (plain python values)"""
    def plain(md):
        if md is None:
            return None
        return [{str(k): core.canon_value(v) for k, v in e.items()} for e in md]
    return {"obs": [str(x) for x in t.ids(axis="observation")], "samp": [str(x) for x in t.ids()],
            "rows": [[float(x) for x in r] for r in t.matrix_data.toarray().tolist()],
            "omd": plain(t.metadata(axis="observation")), "smd": plain(t.metadata()), "type": t.type}


# ----------------------------------------------------------------------------- observations
def content(t):
    o = core.table_obs(t)
    return {k: o[k] for k in ("obs", "samp", "rows", "omd", "smd", "type")}


def lacking_key(t):
    """an observation-metadata key that some IDs lack (else any key, else a key nobody has)"""
    md = t.metadata(axis="observation")
    if md is None:
        return "nokey"
    keys = sorted({k for e in md for k in e})
    for k in keys:
        if any(k not in e for e in md):
            return k
    return keys[0] if keys else "nokey"


def hdf5_write_only(t):
    import h5py
    os.makedirs(TMP, exist_ok=True)
    _h5n[0] += 1
    path = os.path.join(TMP, "a%d_%d.h5" % (os.getpid(), _h5n[0]))
    try:
        with h5py.File(path, "w") as f:
            t.to_hdf5(f, "c16")
    finally:
        if os.path.exists(path):
            os.remove(path)


def do_accessor(t, name, k, cells=None, vecs=None):
    """run one read-only accessor; returns the name the model should use (`<name>_raised` when the accessor
    refused the table); get_value answers are appended to `cells`"""
    obs = t.ids(axis="observation")
    samp = t.ids()
    o = obs[k % len(obs)]
    s = samp[k % len(samp)]
    try:
        if name == "nnz":
            t.nnz
        elif name == "data_obs":
            v = t.data(o, axis="observation")
            if vecs is not None:
                vecs.append(["observation", str(o), fr_list(v)])
        elif name == "data_samp":
            v = t.data(s, axis="sample")
            if vecs is not None:
                vecs.append(["sample", str(s), fr_list(v)])
        elif name == "iter_obs":
            for v, i, _ in list(t.iter(axis="observation")):
                if vecs is not None:
                    vecs.append(["observation", str(i), fr_list(v)])
        elif name == "iter_samp":
            for v, i, _ in list(t.iter()):
                if vecs is not None:
                    vecs.append(["sample", str(i), fr_list(v)])
        elif name == "matrix_data":
            t.matrix_data.toarray()
        elif name == "get_value":
            v = t.get_value_by_ids(o, s)
            if cells is not None:
                cells.append([str(o), str(s), core.frac(v)])
        elif name == "sum":
            (t.sum(), t.sum("observation"), t.sum("sample"))
        elif name == "metadata":
            (t.metadata(o, axis="observation"), t.metadata(s, axis="sample"), t.metadata())
        elif name == "to_tsv":
            t.to_tsv()
        elif name == "to_tsv_key":
            key = lacking_key(t)
            t.to_tsv(header_key=key, header_value=key)
        elif name == "to_json":
            t.to_json("c16")
        elif name == "to_hdf5":
            hdf5_write_only(t)
        elif name == "to_dataframe":
            t.to_dataframe(dense=bool(k % 2))
        elif name == "md_df_obs":
            t.metadata_to_dataframe("observation")
        elif name == "md_df_samp":
            t.metadata_to_dataframe("sample")
        elif name == "str":
            str(t)
        elif name == "repr":
            repr(t)
        elif name in ("iter_samp_flip", "iter_obs_flip"):
            ax = "sample" if name == "iter_samp_flip" else "observation"
            n_ax = len(samp) if ax == "sample" else len(obs)
            it = [lambda: t.iter(axis=ax), lambda: t.iter(axis=ax, dense=False),
                  lambda: zip(t.iter_data(axis=ax), t.ids(axis=ax), itertools.repeat(None))][k % 3]()
            got = [next(it)]
            # a read of the OTHER axis while the generator is suspended
            if ax == "sample":
                [lambda: t.data(o, axis="observation"), lambda: str(t), lambda: list(t.iter(axis="observation"))][(k // 3) % 3]()
            else:
                [lambda: t.data(s, axis="sample"), lambda: t.to_json("c16"), lambda: list(t.iter())][(k // 3) % 3]()
            got += list(it)
            if vecs is not None:
                for v, i, _ in got:
                    v = v.toarray().ravel() if hasattr(v, "toarray") else v
                    vecs.append([ax, str(i), fr_list(v)])
            if len(got) != n_ax and vecs is not None:
                vecs.append([ax, "<iteration yielded %d of %d vectors>" % (len(got), n_ax), []])
            # the layout left behind is the resumed iteration's, or the other read's when nothing was left to resume
            if n_ax == 1:
                return "data_obs" if ax == "sample" else "data_samp"
            return "iter_samp" if ax == "sample" else "iter_obs"
        else:
            raise ValueError(name)
    except (KeyError, ValueError) as e:
        # refusing a table (no metadata to tabulate, categories that HDF5 cannot hold) is allowed; changing it is not
        if name in MAY_RAISE and isinstance(e, MAY_RAISE[name]):
            if name == "to_hdf5":
                # the writer handles the observation axis (CSR) first, then the sample axis (CSC): where it
                # refuses decides which layout is left behind
                omd = t.metadata(axis="observation")
                if omd is not None and len({tuple(sorted(e)) for e in omd}) > 1:
                    return "to_hdf5_raised"
                return "to_hdf5_raised_samp"
            return name + "_raised"
        raise
    return name


def fresh_queries(t, order="cos", rot=0):
    """per-cell (c), per-observation (o) and per-sample (s) answers of a table nothing else has touched yet
    (layout as built), asked in the block order `order`, IDs rotated by `rot`"""
    obs = [str(x) for x in t.ids(axis="observation")]
    samp = [str(x) for x in t.ids()]
    ro, rs = rot % max(1, len(obs)), rot % max(1, len(samp))
    obs, samp = obs[ro:] + obs[:ro], samp[rs:] + samp[:rs]
    cells, vecs = [], []
    for blk in order:
        if blk == "c":
            cells += [[o, s, core.frac(t.get_value_by_ids(o, s))] for o in obs for s in samp]
        elif blk == "o":
            vecs += [["observation", o, fr_list(t.data(o, axis="observation"))] for o in obs]
        elif blk == "s":
            vecs += [["sample", x, fr_list(t.data(x, axis="sample"))] for x in samp]
    # look-alikes of existing IDs (extension, prefix, blank, case) must be refused by every by-ID question; an
    # answer is recorded and judged like one (the content has no such ID)
    for ax, ids, oth in (("observation", obs, samp), ("sample", samp, obs)):
        for bad in core.tricky_unknown_ids(ids)[rot % 3::3][:5]:
            if t.exists(bad, axis=ax):
                vecs.append([ax, bad, []])
            try:
                vecs.append([ax, bad, fr_list(t.data(bad, axis=ax))])
            except Exception as e:
                if core.err_name(e) != "UnknownID":
                    raise
            try:
                v = t.get_value_by_ids(bad, oth[0]) if ax == "observation" else t.get_value_by_ids(oth[0], bad)
                cells.append([bad, oth[0], core.frac(v)] if ax == "observation" else [oth[0], bad, core.frac(v)])
            except Exception as e:
                if core.err_name(e) != "UnknownID":
                    raise
    return cells, vecs


def checkpoint(a, b):
    e1 = a == b
    e2 = b == a
    n1 = a != b
    n2 = b != a
    d1 = a.descriptive_equality(b)
    d2 = b.descriptive_equality(a)
    return {"eq_ab": bool(e1), "eq_ba": bool(e2), "ne_ab": bool(n1), "ne_ba": bool(n2),
            "desc_ab": DESC.get(d1, "?" + d1), "desc_ba": DESC.get(d2, "?" + d2)}


def fr_list(v):
    return [core.frac(x) for x in v]


def queries(t):
    from fractions import Fraction
    q = []
    # sums are compared only when they are exact in binary64 (after norm the values are not dyadic, and CSR and
    # CSC add them in different orders: rounding, not representation dependence)
    exact = all(abs(float(x)) < 2.0 ** 40 and Fraction(float(x)).denominator <= 2 ** 20 for x in t.matrix_data.data)
    obs = [str(x) for x in t.ids(axis="observation")]
    samp = [str(x) for x in t.ids()]
    q.append(("shape", json.dumps([int(x) for x in t.shape])))
    q.append(("nnz", str(int(t.nnz))))
    q.append(("ids", json.dumps([obs, samp], ensure_ascii=False)))
    q.append(("is_empty", str(t.is_empty())))
    for ax, ids in (("observation", obs), ("sample", samp)):
        for i in ids:
            q.append(("data:%s:%s" % (ax, i), json.dumps(fr_list(t.data(i, axis=ax)))))
            q.append(("md:%s:%s" % (ax, i), json.dumps(core.canon_md_entry(t.metadata(i, axis=ax)), sort_keys=True)))
            q.append(("index:%s:%s" % (ax, i), str(int(t.index(i, ax)))))
            q.append(("exists:%s:%s" % (ax, i), str(bool(t.exists(i, axis=ax)))))
        if exact:
            q.append(("sum:" + ax, json.dumps(fr_list(t.sum(ax)))))
        q.append(("iter:" + ax, json.dumps([[fr_list(v), str(i), core.canon_md_entry(m)] for v, i, m in t.iter(axis=ax)],
                                           sort_keys=True, ensure_ascii=False)))
        q.append(("nonzero_counts:" + ax, json.dumps([int(x) for x in t.nonzero_counts(ax)])))
    for o in obs:
        for s in samp:
            q.append(("cell:%s:%s" % (o, s), core.frac(t.get_value_by_ids(o, s))))
    if exact:
        q.append(("sum:whole", core.frac(t.sum())))
    q.append(("nonzero", json.dumps(sorted([str(o), str(s)] for o, s in t.nonzero()), ensure_ascii=False)))
    q.append(("exists:absent", str(bool(t.exists("\x00no such id")))))
    return q


def parse_tsv(text, md_key=None):
    lines = text.split("\n")
    assert lines[0].startswith("#"), lines[0]
    head = lines[1].split("\t")
    samp = head[1:]
    if md_key is not None:
        samp = samp[:-1]
    obs, rows, omd = [], [], []
    for ln in lines[2:]:
        if ln == "":
            continue
        f = ln.split("\t")
        obs.append(f[0])
        vals = f[1:1 + len(samp)]
        rows.append([core.frac(float(x)) for x in vals])
        if md_key is not None:
            omd.append({md_key: json.dumps(f[1 + len(samp)])})
    return {"obs": obs, "samp": samp, "rows": rows, "omd": omd if md_key is not None else None, "smd": None,
            "type": None}


def parse_json_export(text):
    d = json.loads(text)
    obs = [r["id"] for r in d["rows"]]
    samp = [c["id"] for c in d["columns"]]
    n, m = d["shape"]
    grid = [[0.0] * m for _ in range(n)]
    if d["matrix_type"] == "sparse":
        for i, j, v in d["data"]:
            grid[i][j] = v
    else:
        grid = d["data"]

    def md(entries):
        mds = [e["metadata"] for e in entries]
        if all(x is None for x in mds):
            return None
        return [core.canon_md_entry(x) for x in mds]
    tab = {"obs": obs, "samp": samp, "rows": [[core.frac(float(x)) for x in r] for r in grid],
           "omd": md(d["rows"]), "smd": md(d["columns"]), "type": d.get("type")}
    rest = {k: d[k] for k in d if k not in ("date", "rows", "columns", "data")}
    return tab, json.dumps(rest, sort_keys=True, ensure_ascii=False), \
        json.dumps({k: d[k] for k in d if k != "date"}, sort_keys=True, ensure_ascii=False)


_h5n = [0]


def hdf5_export(t, path=None, **kw):
    """write with to_hdf5, re-read with h5py only; the file is removed immediately"""
    import h5py
    import numpy as np
    os.makedirs(TMP, exist_ok=True)
    _h5n[0] += 1
    path = path or os.path.join(TMP, "e%d_%d.h5" % (os.getpid(), _h5n[0]))
    try:
        with h5py.File(path, "w") as f:
            t.to_hdf5(f, "c16", **kw)
        with h5py.File(path, "r") as f:
            def ids(ax):
                return [x.decode("utf8") if isinstance(x, bytes) else str(x) for x in f[ax + "/ids"][:]]
            obs, samp = ids("observation"), ids("sample")

            def grid(ax, nmaj, nmin):
                g = f[ax + "/matrix"]
                data, ind, ptr = g["data"][:], g["indices"][:], g["indptr"][:]
                out = [[0.0] * nmin for _ in range(nmaj)]
                for i in range(nmaj):
                    for k in range(int(ptr[i]), int(ptr[i + 1])):
                        out[i][int(ind[k])] = float(data[k])
                return out, [int(x) for x in ptr], len(data)

            def md(ax, n):
                g = f[ax + "/metadata"]
                keys = sorted(g.keys())
                if not keys:
                    return None
                out = [{} for _ in range(n)]
                for k in keys:
                    col = g[k][:]
                    for i in range(n):
                        out[i][k] = json.dumps(core.canon_value(col[i]), sort_keys=True, ensure_ascii=False)
                return out
            g_obs, ptr_o, n_o = grid("observation", len(obs), len(samp))
            g_samp, ptr_s, n_s = grid("sample", len(samp), len(obs))
            g_samp_t = [[g_samp[j][i] for j in range(len(samp))] for i in range(len(obs))]
            typ = f.attrs["type"]
            typ = typ.decode("utf8") if isinstance(typ, bytes) else str(typ)
            tab = {"obs": obs, "samp": samp, "rows": core.grid_frac(g_obs), "omd": md("observation", len(obs)),
                   "smd": md("sample", len(samp)), "type": typ}
            tab2 = dict(tab, rows=core.grid_frac(g_samp_t))
            attrs = json.dumps({"shape": [int(x) for x in f.attrs["shape"]], "nnz": int(f.attrs["nnz"]),
                                "stored": [n_o, n_s], "type": typ,
                                "date": str(f.attrs["creation-date"]) if "creation_date" in kw else None,
                                "generated-by": str(f.attrs["generated-by"]), "id": str(f.attrs["id"])})
    finally:
        if os.path.exists(path):
            os.remove(path)
    return tab, tab2, attrs


REFUSED = {"obs": ["<export refused>"], "samp": [], "rows": [[]], "omd": None, "smd": None, "type": None}


def _bracket(x):
    return "<%s>" % (x,)


def _upper_formatter(grp, header, md, compression):
    """a caller-supplied HDF5 formatter: the category written as upper-case text"""
    import h5py
    grp.create_dataset("metadata/%s" % header.replace("/", "@@SLASH@@"), shape=(len(md),),
                       dtype=h5py.special_dtype(vlen=str),
                       data=[str(m[header]).upper().encode("utf8") for m in md], compression=compression)


def exports_of(t, md_key, path=None, opts=True):
    """default exports plus (opts) every optional keyword of to_tsv / to_json / to_hdf5"""
    import datetime
    import io
    ex, q = [], []
    txt = t.to_tsv()
    ex.append(("tsv", parse_tsv(txt)))
    q.append(("tsv_text", txt))
    if md_key is not None:
        txt2 = t.to_tsv(header_key=md_key, header_value=md_key, metadata_formatter=str)
        ex.append(("tsv_md", parse_tsv(txt2, md_key)))
        q.append(("tsv_md_text", txt2))
    jt, jrest, jall = parse_json_export(t.to_json("c16"))
    ex.append(("json", jt))
    q.append(("json_header", jrest))
    q.append(("json_document_without_date", jall))

    def h5(tag, **kw):
        try:
            h1, h2, attrs = hdf5_export(t, path=path, **kw)
        except ValueError:
            # metadata categories that differ between IDs cannot be written; equal tables must then BOTH be
            # refused: the refusal is the export's result and is compared like one
            ex.append((tag, REFUSED))
            ex.append((tag + "_sample_matrix", REFUSED))
            q.append((tag + "_attrs", "refused"))
            return
        ex.append((tag, h1))
        ex.append((tag + "_sample_matrix", h2))
        q.append((tag + "_attrs", attrs))
    h5("hdf5")
    if opts:
        fixed = datetime.datetime(2020, 2, 29, 23, 59, 58, 123456)
        aware = datetime.datetime(1999, 12, 31, 1, 2, 3, tzinfo=datetime.timezone(datetime.timedelta(hours=-7)))
        # to_tsv: column name, header override, custom formatter, direct_io
        buf = io.StringIO()
        r = t.to_tsv(header_key=md_key, header_value="HV" if md_key else None, metadata_formatter=_bracket,
                     observation_column_name="Taxon name", direct_io=buf)
        q.append(("tsv_opts_text", json.dumps([r, buf.getvalue()], ensure_ascii=False)))
        otxt = buf.getvalue()
        q.append(("!tsv_opts_header", otxt.split("\n")[1].split("\t")[0] + "|" + (otxt.split("\n")[1].split("\t")[-1] if md_key else ""),
                  "Taxon name|" + ("HV" if md_key else "")))
        ex.append(("tsv_opts", parse_tsv(otxt.rstrip("\n"), md_key)))
        buf = io.StringIO()
        t.delimited_self(delim=";", direct_io=buf)
        q.append(("delimited_semicolon", buf.getvalue()))
        # to_json: explicit dates (naive and timezone-aware), direct_io: the WHOLE document must agree
        buf = io.StringIO()
        r = t.to_json("c16 opts", direct_io=buf, creation_date=aware)
        q.append(("json_direct_io_aware_date", json.dumps([r, json.loads(buf.getvalue())], sort_keys=True, ensure_ascii=False)))
        dj = json.loads(buf.getvalue())
        q.append(("!json_date_and_generator", json.dumps([dj.get("date"), dj.get("generated_by")]),
                  json.dumps([aware.isoformat(), "c16 opts"])))
        ex.append(("json_opts", parse_json_export(buf.getvalue())[0]))
        q.append(("json_fixed_date", json.dumps(json.loads(t.to_json("g", creation_date=fixed)), sort_keys=True,
                                                ensure_ascii=False)))
        # to_hdf5: no compression, explicit date, caller-supplied formatter for one category
        fs = {md_key: _upper_formatter} if md_key is not None and all(md_key in e for e in (t.metadata(axis="observation") or [])) else {}
        h5("hdf5_opts", compress=False, creation_date=aware, format_fs=fs)
    return ex, q


def unusual_calls(t, path):
    """process-level state: exports with unusual arguments and the SAME path re-used for other formats and another
    table; whatever they leave behind in the module must not show in later default exports"""
    import io
    import h5py
    import numpy as np
    from biom import Table
    t.to_tsv(header_key="no such key", header_value="X", metadata_formatter=lambda x: "ZZ")
    t.to_tsv(metadata_formatter=lambda x: 1 / 0)          # never called without header_key
    t.delimited_self(delim=",", observation_column_name="")
    t.to_json("other generator \"quoted\"", direct_io=io.StringIO())
    other = Table(np.array([[9.0, 0.0, 1.0]]), ["only"], ["p", "q", "r"], [{"grp": "zzz"}], None, type="Gene table")
    with open(path, "w") as f:                            # JSON text, then TSV text, at the path
        f.write(t.to_json("x"))
    with open(path, "w") as f:
        f.write(other.to_tsv())
    with h5py.File(path, "w") as f:                       # another table as HDF5 at the same path
        other.to_hdf5(f, "x", compress=False, format_fs={"grp": _upper_formatter})
    with h5py.File(path, "w") as f:
        try:
            t.to_hdf5(f, "x", format_fs={"grp": _upper_formatter, "taxonomy": _upper_formatter})
        except ValueError:
            pass


# ----------------------------------------------------------------------------- cases
def layout_key(t, facts):
    lf = core.layout_facts(t)
    return "format=%s,sorted=%s,stored_zeros=%s" % (lf.get("format"), lf.get("sorted"), lf.get("stored_zeros"))


def run_pair(ctx, case, tags=()):
    """a table that raises on a by-ID question about its own IDs (stale lookups after someone else's in-place
    update, ...) is a failure of the property, not of the harness"""
    try:
        return _run_pair(ctx, case, tags)
    except Exception as e:
        name = core.err_name(e)
        if name in ("UnknownID", "TableException", "UnknownAxis", "DisjointID", "Key", "Index"):
            ctx.case(case, nontrivial=True)
            ctx.fail(case, "table-raised-on-own-ids:" + name, tuple(tags) + ("route_a=" + str(case.get("route_a")),
                                                                             "route_b=" + str(case.get("route_b"))),
                     detail={"error": repr(e)[:300]})
            return None
        raise


def _run_pair(ctx, case, tags=()):
    """case: {"kind":"pair","spec_a","route_a","spec_b","route_b","steps":[[side,acc]...],"exports":bool,
    "expect":"equal"|"differs"}"""
    try:
        a, mia, fa = build_operand(case["spec_a"], case["route_a"])
        if case["spec_b"] is None and case["route_b"] == "copy_of_a":
            # partner = the first operand's own copy()
            b = a.copy()
            cobs = core.table_obs(b)
            mib = {"type": cobs["type"], "obs": cobs["obs"], "samp": cobs["samp"], "omd_in": cobs["omd"],
                   "smd_in": cobs["smd"], "layout": flat_rowmajor(b.matrix_data), "ctor": False,
                   "fmt": fmt_label(b.matrix_data)}
            fb = {}
        elif case["spec_b"] is None:
            # partner = construction (by route_b) of the content the first operand has reached
            b, mib, fb = build_operand(spec_of_table(a), case["route_b"])
        else:
            b, mib, fb = build_operand(case["spec_b"], case["route_b"])
    except Skip:
        ctx.count("skipped-route-not-applicable")
        return None
    tags = tuple(tags) + ("route_a=" + case["route_a"], "route_b=" + case["route_b"], "expect=" + case["expect"])
    steps = case.get("steps", [])
    ctx.case(case, nontrivial=(case["route_a"] != case["route_b"] or case["expect"] == "differs" or len(steps) > 0))
    for side, t, f in (("a", a, fa), ("b", b, fb)):
        ctx.count("layout:" + layout_key(t, f))
        if f.get("in_stored_zeros"):
            ctx.count("ctor-input:stored-zeros")
        if f and not f.get("in_sorted", True):
            ctx.count("ctor-input:unsorted-indices")
    # per-cell / per-ID queries first, on twins built the same way that nothing has touched
    if case["spec_b"] is None and case["route_b"] == "copy_of_a":
        b2 = build_operand(case["spec_a"], case["route_a"], need_model=False)[0].copy()
    elif case["spec_b"] is None:
        b2 = build_operand(spec_of_table(build_operand(case["spec_a"], case["route_a"])[0]), case["route_b"],
                           need_model=False)[0]
    else:
        b2 = build_operand(case["spec_b"], case["route_b"], need_model=False)[0]
    a2 = build_operand(case["spec_a"], case["route_a"], need_model=False)[0]
    for t2 in (a2, b2):
        m2 = t2.matrix_data
        if m2.getformat() == "csr" and not m2.has_sorted_indices:
            ctx.count("fresh-queries-on-unsorted-csr")
    qorder, qrot = case.get("qorder", "cos"), int(case.get("qrot", 0))
    cells_a, vecs_a = fresh_queries(a2, qorder, qrot)
    cells_b, vecs_b = fresh_queries(b2, qorder, qrot)
    ctx.count("query-order=" + qorder)
    ca, cb = content(a), content(b)
    checks = [checkpoint(a, b)]
    resolved = []
    for k, (side, name) in enumerate(steps):
        rn = do_accessor(b if side == 1 else a, name, k, cells_b if side == 1 else cells_a,
                         vecs_b if side == 1 else vecs_a)
        resolved.append([side, rn])
        ctx.count("accessor=" + rn)
        checks.append(checkpoint(a, b))
    exports, qs = [], []
    fa_after, fb_after = fmt_label(a.matrix_data), fmt_label(b.matrix_data)
    same = (ca == cb)
    if same and case.get("sweep", True):
        qa, qb = queries(a), queries(b)
        na = [n for n, _ in qa]
        if na != [n for n, _ in qb]:
            qs.append(["query-names", json.dumps(na, ensure_ascii=False), json.dumps([n for n, _ in qb], ensure_ascii=False)])
        else:
            qs = [[n, x, y] for (n, x), (_, y) in zip(qa, qb)]
        if case.get("exports"):
            md_key = lacking_key(a) if a.metadata(axis="observation") is not None else None
            if case.get("unusual"):
                # process-level state: one path for every file, unusual calls between the two tables' exports
                shared = os.path.join(TMP, "shared_%d.biom" % os.getpid())
                try:
                    if case["unusual"] == "late":
                        unusual_calls(b, shared)
                    ea, xa = exports_of(a, md_key, path=shared)
                    unusual_calls(a, shared)
                    eb, xb = exports_of(b, md_key, path=shared)
                finally:
                    if os.path.exists(shared):
                        os.remove(shared)
                ctx.count("exports-around-unusual-calls")
            else:
                ea, xa = exports_of(a, md_key, opts=case.get("export_opts", True))
                eb, xb = exports_of(b, md_key, opts=case.get("export_opts", True))
            # absolute expectations (name starts with "!"): [name, observed, expected]
            absq = [["%s@%s" % (e[0], w), e[1], e[2]] for w, xs in (("a", xa), ("b", xb)) for e in xs if len(e) == 3]
            xa = [e for e in xa if len(e) == 2]
            xb = [e for e in xb if len(e) == 2]
            qs += absq
            names = [[n for n, _ in ea] + [n for n, _ in xa], [n for n, _ in eb] + [n for n, _ in xb]]
            qs.append(["export-names", json.dumps(names[0]), json.dumps(names[1])])
            exports = [[n, x, y] for (n, x), (_, y) in zip(ea, eb)]
            # ... and each default export carries the content of its own table (IDs, values; metadata where the
            # format keeps it verbatim): whatever earlier calls left behind in the process must not show
            for who, cont, exs in (("a", ca, ea), ("b", cb, eb)):
                for n, x in exs:
                    if x is REFUSED:
                        continue
                    grid_only = dict(cont, omd=None, smd=None, type=None)
                    if n == "tsv":
                        exports.append([n + "@%s-vs-content" % who, x, grid_only])
                    elif n == "tsv_md":
                        col = [{md_key: json.dumps(str(e.get(md_key)))} for e in spec_of_table(a if who == "a" else b)["omd"]]
                        exports.append([n + "@%s-vs-content" % who, x, dict(grid_only, omd=col)])
                    elif n == "tsv_opts":
                        col = None if md_key is None else \
                            [{md_key: json.dumps(_bracket(e.get(md_key)))} for e in spec_of_table(a if who == "a" else b)["omd"]]
                        exports.append([n + "@%s-vs-content" % who, x, dict(grid_only, omd=col)])
                    elif n in ("json", "json_opts"):
                        exports.append([n + "@%s-vs-content" % who, x, cont])
                    elif n in ("hdf5", "hdf5_sample_matrix", "hdf5_opts", "hdf5_opts_sample_matrix"):
                        exports.append([n + "@%s-vs-content" % who, dict(x, omd=None, smd=None, type=None), grid_only])
            qs += [[n, x, y] for (n, x), (_, y) in zip(xa, xb)]
            ctx.count("exports-compared")
    req = {"op": "pair", "steps": resolved, "checks": checks, "exports": exports, "queries": qs,
           "a": {"content": ca, "content_after": content(a), "model_in": mia, "fmt_after": fa_after,
                 "fmt_final": fmt_label(a.matrix_data), "layout_after": flat(a.matrix_data),
                 "cells": cells_a, "vecs": vecs_a},
           "b": {"content": cb, "content_after": content(b), "model_in": mib, "fmt_after": fb_after,
                 "fmt_final": fmt_label(b.matrix_data), "layout_after": flat(b.matrix_data),
                 "cells": cells_b, "vecs": vecs_b}}
    r = ctx.driver.ask(req)
    ctx.count("content=" + ("same" if same else "different"))
    ctx.count("steps=%d" % len(steps))
    ctx.count("final-formats=%s/%s" % (fa_after, fb_after))
    detail = {"checks": checks, "model": r.get("model"), "differs": r.get("differs"),
              "content_a": ca, "content_b": cb, "fmt_after": [fa_after, fb_after], "steps_resolved": resolved,
              "pid": os.getpid()}
    if not r["holds"]:
        ctx.fail(case, r["clause"], tags, detail=detail)
    elif not r["agree"]:
        ctx.diverge(case, "model and code differ in: %s" % ",".join(r.get("differs", [])), tags, detail=detail)
    if same != (case["expect"] == "equal") and (case["route_a"].startswith("aliased:") or
                                                 str(case["route_b"]).startswith("aliased:")):
        ctx.fail(case, "aliased-source-changed", tags, detail=detail)
    elif same != (case["expect"] == "equal") and (case["route_a"].startswith(("ident|", "refused|")) or
                                                   str(case["route_b"]).startswith(("ident|", "refused|"))):
        # an operation that must be the identity on content changed it (IDs, order, values or metadata)
        ctx.fail(case, "identity-history-changed-content", tags, detail=detail)
    elif same != (case["expect"] == "equal"):
        ctx.diverge(case, "the routes did not produce the intended %s content" % case["expect"], tags, detail=detail)
    return r


def run_family(ctx, case, tags=()):
    """case: {"kind":"family","items":[{"spec","route"}...]}"""
    try:
        built = [build_operand(it["spec"], it["route"]) for it in case["items"]]
    except Skip:
        ctx.count("skipped-route-not-applicable")
        return None
    ctx.case(case, nontrivial=True)
    ts = [x[0] for x in built]
    conts = [content(t) for t in ts]
    eqs = [[bool(x == y) for y in ts] for x in ts]
    req = {"op": "family", "items": [{"content": c, "model_in": x[1]} for c, x in zip(conts, built)], "eqs": eqs}
    r = ctx.driver.ask(req)
    ctx.count("family-size=%d" % len(ts))
    ctx.count("family-classes=%d" % len({json.dumps(c, sort_keys=True) for c in conts}))
    detail = {"eqs": eqs, "model": r.get("model")}
    if not r["holds"]:
        ctx.fail(case, "family:" + str(r["clause"]), tags, detail=detail)
    elif not r["agree"]:
        ctx.diverge(case, "family: model and code differ", tags, detail=detail)
    return r


def raw_matrix(k):
    import numpy as np
    import scipy.sparse as sp
    cls = sp.csc_matrix if k.get("fmt") == "csc" else sp.csr_matrix
    return cls((np.array(k["data"], dtype=float), np.array(k["indices"], dtype=np.int32),
                np.array(k["indptr"], dtype=np.int32)), shape=tuple(k["shape"]))


def run_kernel(ctx, case, tags=()):
    """case: {"kind":"kernel","a":{"shape","fmt","indptr","indices","data"},"b":{...}}: `_data_equality` on
    matrices put straight into `_data` (bypassing the constructor: stored zeros survive)"""
    import numpy as np
    from biom import Table
    ma, mb = raw_matrix(case["a"]), raw_matrix(case["b"])
    ta = Table(np.zeros(ma.shape), ["o%d" % i for i in range(ma.shape[0])], ["s%d" % i for i in range(ma.shape[1])],
               validate=False)
    ta._data = ma
    sz = bool((ma.data == 0).any() or (mb.data == 0).any())
    ctx.case(case, nontrivial=True)
    dense_a, dense_b = ma.toarray(), mb.toarray()
    elim = ma.tocsr().copy()
    elim.eliminate_zeros()
    result = bool(ta._data_equality(mb))
    req = {"op": "kernel", "a": flat(ma.tocsr()), "b": flat(mb.tocsr()),
           "shape_a": list(ma.shape), "shape_b": list(mb.shape),
           "dense_a": core.grid_frac(dense_a), "dense_b": core.grid_frac(dense_b),
           "stored_zeros": sz, "result": result, "elim_a": flat(elim)}
    r = ctx.driver.ask(req)
    ctx.count("kernel:stored_zeros=%s,result=%s,dense_equal=%s" % (
        sz, result, bool(ma.shape == mb.shape and (dense_a == dense_b).all())))
    if not r["wf"]:
        ctx.diverge(case, "kernel: generated layout is not well-formed", tags)
    if not r["holds"]:
        ctx.fail(case, "kernel:" + str(r["clause"]), tags, detail={"model": r["model"], "result": result})
    elif not r["agree"]:
        ctx.diverge(case, "kernel: dataEq/eliminateZeros differ from _data_equality/eliminate_zeros", tags,
                    detail={"model": r["model"], "result": result, "elim": req["elim_a"]})
    return r


PROBE_A = {"shape": [2, 2], "fmt": "csr", "indptr": [0, 2, 3], "indices": [0, 1, 1], "data": [1.0, 0.0, 2.0]}
PROBE_B = {"shape": [2, 2], "fmt": "csr", "indptr": [0, 1, 2], "indices": [0, 1], "data": [1.0, 2.0]}


def run_probe(ctx):
    """corpus/probes/p16.py: the original failing input of the repaired defect, verbatim — a CSR matrix with
    one explicitly stored zero handed to the constructor must equal the dense construction at once"""
    from biom import Table
    pa = Table(raw_matrix(PROBE_A), ["o1", "o2"], ["s1", "s2"])
    pb = core.build(DEFECT_SPEC, "dense")
    ctx.case({"kind": "probe-p16"}, nontrivial=True)
    if not (pa == pb and pb == pa and not (pa != pb) and not (pb != pa) and pa.matrix_data.nnz == 2
            and DESC.get(pa.descriptive_equality(pb)) == "equal"):
        ctx.fail({"kind": "probe-p16"}, "eq-iff-content", ("corpus", "defect-F-C16-1"))


def run_foreign(ctx):
    """comparisons with objects that are not tables"""
    spec = {"obs": ["o1"], "samp": ["s1"], "rows": [[1.0]], "omd": None, "smd": None, "type": None}
    t = core.build(spec, "dense")
    for other in ("x", None, 5, [[1.0]], t.matrix_data):
        ok = (t == other) is False and (t != other) is True and \
            DESC.get(t.descriptive_equality(other)) == "class"
        ctx.case({"kind": "foreign", "other": repr(type(other))}, nontrivial=False)
        if not ok:
            ctx.fail({"kind": "foreign", "other": repr(type(other))}, "foreign-class", ("foreign",))


# ----------------------------------------------------------------------------- generators
DEFECT_SPEC = {"obs": ["o1", "o2"], "samp": ["s1", "s2"], "rows": [[1.0, 0.0], [0.0, 2.0]],
               "omd": None, "smd": None, "type": None}


def nonuniform_md(rng, ids):
    """per-ID metadata whose key sets differ: every key is lacked by at least one ID when there are two IDs"""
    md = []
    for i, _ in enumerate(ids):
        e = {}
        if rng.random() < 0.6:
            e["grp"] = rng.choice(["a", "b", "c"])
        if rng.random() < 0.5:
            e["depth"] = rng.randint(0, 5)
        if rng.random() < 0.3:
            e["taxonomy"] = ["k__%s" % rng.choice("AB"), "p__%s" % rng.choice("xyz")]
        md.append(e)
    if len(ids) >= 2:
        md[0]["only0"] = "x"
        md[-1].pop("grp", None)
        md[0].setdefault("grp", "a")
    elif not md[0]:
        md[0]["grp"] = "a"
    return md


def gen_spec(rng, quick=True, nonuniform=None):
    spec = core.gen_spec(rng, max_n=4 if quick else 7, max_m=4 if quick else 7, classes=VALUE_CLASSES)
    if nonuniform is None:
        nonuniform = rng.random() < 0.35
    if nonuniform:
        spec["omd"] = nonuniform_md(rng, spec["obs"])
        if rng.random() < 0.5:
            spec["smd"] = nonuniform_md(rng, spec["samp"])
    return spec


def gen_equal_totals_spec(rng, axis):
    """integer grid whose vectors along `axis` all have the same positive total and no empty line"""
    for _ in range(50):
        n, m = rng.randint(1, 4), rng.randint(1, 4)
        rounds = rng.randint(1, 6)
        g = [[0.0] * m for _ in range(n)]
        if axis == "sample":
            for _ in range(rounds):
                for j in range(m):
                    g[rng.randrange(n)][j] += 1.0
        else:
            for _ in range(rounds):
                for i in range(n):
                    g[i][rng.randrange(m)] += 1.0
        spec = core.gen_spec(rng, max_n=n, max_m=m, min_n=n, min_m=m, classes=VALUE_CLASSES)
        spec["rows"] = g
        if subsample_ok(spec, axis) is not None:
            return spec
    return None


def mutate(rng, spec, only=None):
    """a spec differing from `spec` in exactly one value / ID / order / metadata entry / type"""
    s = copy.deepcopy(spec)
    n, m = len(s["obs"]), len(s["samp"])
    kinds = ["value", "value_to_zero", "value_from_zero", "obs_id", "samp_id", "type", "md_value", "md_absent",
             "md_extra_key", "md_extra_key", "md_none_key", "md_none_key", "obs_id_tricky", "samp_id_tricky", "obs_id_tricky", "samp_id_tricky"]
    if only is not None:
        kinds = [only]
    if n > 1:
        kinds += ["obs_order", "obs_order_with_data"]
    if m > 1:
        kinds += ["samp_order"]
    rng.shuffle(kinds)
    for kind in kinds:
        if kind == "value":
            cells = [(i, j) for i in range(n) for j in range(m) if s["rows"][i][j] != 0]
            if not cells:
                continue
            i, j = rng.choice(cells)
            s["rows"][i][j] = s["rows"][i][j] + rng.choice([1.0, 0.5, -0.25]) or 7.0
            return kind, s
        if kind == "value_to_zero":
            cells = [(i, j) for i in range(n) for j in range(m) if s["rows"][i][j] != 0]
            if not cells:
                continue
            i, j = rng.choice(cells)
            s["rows"][i][j] = 0.0
            return kind, s
        if kind == "value_from_zero":
            cells = [(i, j) for i in range(n) for j in range(m) if s["rows"][i][j] == 0]
            if not cells:
                continue
            i, j = rng.choice(cells)
            s["rows"][i][j] = float(rng.randint(1, 9))
            return kind, s
        if kind in ("obs_id_tricky", "samp_id_tricky"):
            # one ID replaced by a look-alike: trailing blank / newline / tab, a suffix longer than every ID,
            # a prefix, another case, a non-ASCII twin (IDs live in fixed-width arrays)
            ids = s["obs"] if kind == "obs_id_tricky" else s["samp"]
            k = rng.randrange(len(ids))
            i = ids[k]
            longest = max(len(x) for x in ids)
            cands = [i + " ", i + "\n", i + "\t", " " + i, i + "_" * (longest + 3), i[:-1], i.swapcase(), i + "\u00e9",
                     i + "\u65e5\u672c\u8a9e", i + i]
            cands = [c for c in cands if c and c not in ids]
            ids[k] = rng.choice(cands)
            return kind, s
        if kind == "obs_id":
            s["obs"][rng.randrange(n)] += "_x"
            return kind, s
        if kind == "samp_id":
            s["samp"][rng.randrange(m)] += "_x"
            return kind, s
        if kind == "obs_order":
            i, j = rng.sample(range(n), 2)
            s["obs"][i], s["obs"][j] = s["obs"][j], s["obs"][i]
            return kind, s
        if kind == "obs_order_with_data":
            i, j = rng.sample(range(n), 2)
            s["obs"][i], s["obs"][j] = s["obs"][j], s["obs"][i]
            s["rows"][i], s["rows"][j] = s["rows"][j], s["rows"][i]
            if s.get("omd"):
                s["omd"][i], s["omd"][j] = s["omd"][j], s["omd"][i]
            return kind, s
        if kind == "samp_order":
            i, j = rng.sample(range(m), 2)
            s["samp"][i], s["samp"][j] = s["samp"][j], s["samp"][i]
            return kind, s
        if kind == "type":
            s["type"] = rng.choice([t for t in core.TYPES if t != s.get("type")])
            return kind, s
        if kind == "md_value":
            ax = rng.choice([a for a in ("omd", "smd") if s.get(a)] or [None])
            if ax is None:
                continue
            cand = [e for e in s[ax] if e]
            if not cand:
                continue
            e = rng.choice(cand)
            k = rng.choice(sorted(e))
            e[k] = "changed" if not isinstance(e[k], list) else e[k] + ["extra"]
            return kind, s
        if kind == "md_none_key":
            # one ID holds one more key, bound to None (or a whole axis whose only statements are None)
            ax = rng.choice(["omd", "smd"])
            ids = s["obs"] if ax == "omd" else s["samp"]
            if not s.get(ax):
                s[ax] = [{"unset": None} for _ in ids] if rng.random() < 0.5 else \
                    [({"unset": None} if i == len(ids) - 1 else {}) for i in range(len(ids))]
            else:
                rng.choice(s[ax])["unset"] = None
            return kind, s
        if kind == "md_extra_key":
            # one ID gets one more key; everything else identical (metadata created when the axis has none)
            ax = rng.choice(["omd", "smd"])
            ids = s["obs"] if ax == "omd" else s["samp"]
            if not s.get(ax):
                if len(ids) < 2:
                    continue
                s[ax] = [{"k": "v"} for _ in ids]
                spec[ax] = [{"k": "v"} for _ in ids]      # the base gets the same metadata (caller's spec is fresh)
            e = rng.choice(s[ax])
            e["zz_extra"] = rng.choice(["x", 1])
            return kind, s
        if kind == "md_absent":
            ax = rng.choice(["omd", "smd"])
            if s.get(ax):
                s[ax] = None
            else:
                ids = s["obs"] if ax == "omd" else s["samp"]
                s[ax] = [{"k": "v%d" % i} for i in range(len(ids))]
            return kind, s
    return None, s


def gen_steps(rng, length):
    return [[rng.randint(0, 1), rng.choice(ACCESSORS)] for _ in range(length)]


def all_class_steps(max_len):
    """every interleaving over one representative per layout effect and both operands"""
    alphabet = [(side, cls) for side in (0, 1) for cls in ACC_CLASSES]
    n = 0
    for ln in range(max_len + 1):
        for seq in itertools.product(alphabet, repeat=ln):
            n += 1
            yield [[side, ACC_CLASSES[cls][(n + k) % len(ACC_CLASSES[cls])]] for k, (side, cls) in enumerate(seq)]


def gen_raw(rng, grid, n, m, zeros_p, shuffle, fmt="csr"):
    """a well-formed flat layout of `grid` with random index order and explicitly stored zeros"""
    nmaj, nmin = (n, m) if fmt == "csr" else (m, n)
    indptr, indices, data = [0], [], []
    for i in range(nmaj):
        ents = []
        for j in range(nmin):
            v = grid[i][j] if fmt == "csr" else grid[j][i]
            if v != 0 or rng.random() < zeros_p:
                ents.append((j, v))
        if shuffle:
            rng.shuffle(ents)
        indices += [e[0] for e in ents]
        data += [e[1] for e in ents]
        indptr.append(len(indices))
    return {"shape": [n, m], "fmt": fmt, "indptr": indptr, "indices": indices, "data": data}


def gen_kernel_case(rng):
    n, m = rng.randint(1, 4), rng.randint(1, 4)
    g = core.gen_grid(rng, n, m, None, VALUE_CLASSES)
    g2 = copy.deepcopy(g)
    n2, m2 = n, m
    c = rng.random()
    if c < 0.45:
        pass
    elif c < 0.85:
        i, j = rng.randrange(n), rng.randrange(m)
        g2[i][j] = 0.0 if (g2[i][j] != 0 and rng.random() < 0.5) else g2[i][j] + 1.0
    elif c < 0.93:
        # permute two cells of a row: same stored count, different content
        i = rng.randrange(n)
        if m > 1:
            j, k = rng.sample(range(m), 2)
            g2[i][j], g2[i][k] = g2[i][k], g2[i][j]
    else:
        n2, m2 = (n + 1, m) if rng.random() < 0.5 else (n, m + 1)
        g2 = [[(g[i][j] if i < n and j < m else 0.0) for j in range(m2)] for i in range(n2)]
    zp = rng.choice([0.0, 0.0, 0.0, 0.3, 0.6])
    a = gen_raw(rng, g, n, m, zp, rng.random() < 0.6, "csr")
    b = gen_raw(rng, g2, n2, m2, rng.choice([0.0, 0.0, zp]), rng.random() < 0.6, rng.choice(["csr", "csr", "csc"]))
    return {"kind": "kernel", "a": a, "b": b}


# ----------------------------------------------------------------------------- entry points
def dispatch(ctx, case, tags=()):
    k = case.get("kind")
    if k == "pair":
        return run_pair(ctx, case, tags)
    if k == "family":
        return run_family(ctx, case, tags)
    if k == "kernel":
        return run_kernel(ctx, case, tags)
    raise ValueError("unknown case kind %r" % k)


QORDERS = ["cos", "cso", "ocs", "osc", "sco", "soc", "os", "so", "c"]
_qn = [0]


def pair_case(spec_a, route_a, spec_b, route_b, steps, expect, exports=False, qorder=None):
    # the order in which the per-cell / per-ID questions are asked rotates through all block orders
    _qn[0] += 1
    if qorder is None:
        qorder = QORDERS[_qn[0] % len(QORDERS)]
    return {"kind": "pair", "spec_a": spec_a, "route_a": route_a, "spec_b": spec_b, "route_b": route_b,
            "steps": steps, "exports": bool(exports), "expect": expect, "qorder": qorder, "qrot": _qn[0] % 3,
            "export_opts": bool(exports) and _qn[0] % 3 == 0,
            # the a-versus-b query sweep after the history (the by-ID questions against the content are always asked)
            "sweep": bool(exports) or _qn[0] % 2 == 0}


def run(ctx):
    rng = ctx.rng
    quick = ctx.quick()
    os.makedirs(TMP, exist_ok=True)
    ctx.rule = ("pairs/families of real Tables with equal content built through different routes (%d routes: "
                "constructor input forms, sparse layouts incl. explicit zeros / unsorted indices, operation "
                "histories) or differing in exactly one value/ID/order/metadata entry/type; six comparisons observed "
                "at every checkpoint of an accessor interleaving (length <= 3, both operands); exports and queries of "
                "equal pairs; kernel-level _data_equality on raw scipy matrices. non-trivial = different routes, a "
                "non-empty history or a single-difference pair; distinct = distinct (specs, routes, steps)"
                % (len(ALL_ROUTES) + len(CHANGING_ROUTES)))
    ctx.trusted = ["scipy conversions (tocsr/tocsc/_to_sparse/eliminate_zeros ordering) enter the model as inputs with the "
                   "recorded contract LayoutConv; the final layout of every real table is checked against it",
                   "values are small integers and dyadic fractions (sums exact in binary64)"]
    ctx.assumptions = ["kernel-level cases with explicitly stored zeros put matrices straight into Table._data; no "
                       "public constructor path yields them since fix e53d552b, so `unequal` there is agreement of "
                       "model and code, not a violation"]

    # 0. process-level state: the very first exports of the process carry unusual arguments (custom formatters,
    #    one path re-used for three formats); every later default export is compared with the content
    from biom import Table as _T
    import numpy as _np
    first = _T(_np.array([[1.0, 0.0], [0.0, 2.0]]), ["o1", "o2"], ["s1", "s2"],
               [{"grp": "q", "taxonomy": ["k__Z"]}, {"grp": "r", "taxonomy": ["k__Y"]}], [{"site": "a"}, {"site": "b"}])
    shared0 = os.path.join(TMP, "shared0_%d.biom" % os.getpid())
    try:
        first.to_tsv(header_key="grp", header_value="GRP", metadata_formatter=lambda x: "ZZ-%s" % x,
                     observation_column_name="first call")
        unusual_calls(first, shared0)
    finally:
        if os.path.exists(shared0):
            os.remove(shared0)

    # 1. fixed corpus: the repaired defect first — sparse input with one explicit zero vs dense
    #    construction must be == without nnz having been read
    run_pair(ctx, pair_case(DEFECT_SPEC, "csr_zeros", DEFECT_SPEC, "dense", [], "equal", True), ("corpus", "defect-F-C16-1"))
    run_pair(ctx, pair_case(DEFECT_SPEC, "dense", DEFECT_SPEC, "csr_zeros", [], "equal"), ("corpus", "defect-F-C16-1"))
    run_pair(ctx, pair_case(DEFECT_SPEC, "csr_zeros", DEFECT_SPEC, "dense", [[0, "nnz"]], "equal"), ("corpus", "defect-F-C16-1"))
    run_pair(ctx, pair_case(DEFECT_SPEC, "csr_zeros", DEFECT_SPEC, "dense", [[1, "nnz"], [0, "data_samp"]], "equal"),
             ("corpus", "defect-F-C16-1"))
    # the probe's own matrix: [[1, 0(stored)], [0, 2]] as raw CSR arrays, at kernel level and through the constructor
    run_kernel(ctx, {"kind": "kernel", "a": PROBE_A, "b": PROBE_B}, ("corpus",))
    run_kernel(ctx, {"kind": "kernel", "a": PROBE_B, "b": PROBE_A}, ("corpus",))
    run_probe(ctx)
    run_foreign(ctx)

    # 1b. process-level state, early in the run: exports of equal tables taken around exports with unusual
    #     arguments, every file at one re-used path (repeated at the very end of the run)
    state_spec = {"obs": ["a", "b", "c"], "samp": ["x", "y"], "rows": [[0.0, 2.0], [1.5, 0.0], [4.0, 3.0]],
                  "omd": [{"grp": "a", "taxonomy": ["k__A", "p__x"]}, {"grp": "b", "taxonomy": ["k__A"]},
                          {"grp": "a", "taxonomy": ["k__B", "p__y"]}],
                  "smd": [{"site": "gut", "ph": 7}, {"site": "skin", "ph": 6}], "type": "OTU table"}

    def state_cases(tag):
        for ra, rb in (("csr_zeros", "dense"), ("copy", "csc"), ("md_reordered", "lol_dense")):
            c = pair_case(state_spec, ra, state_spec, rb, [[0, "to_tsv_key"], [1, "to_json"]], "equal", exports=True)
            c["unusual"] = tag
            run_pair(ctx, c, ("process-state", tag))
    state_cases("early")

    # 2. every interleaving over the layout-effect classes, on the defect pair and on a CSC/unsorted pair
    max_len = 2 if quick else 3
    spec2 = {"obs": ["a", "b", "c"], "samp": ["x", "y"], "rows": [[0.0, 2.0], [1.5, 0.0], [4.0, 3.0]],
             "omd": [{"grp": "a"}, {"grp": "b"}, {"grp": "a"}], "smd": None, "type": "OTU table"}
    spec2d = copy.deepcopy(spec2); spec2d["rows"][2][0] = 5.0
    # metadata whose key sets differ between IDs (an export that looks a key up must not insert it)
    spec3 = {"obs": ["a", "b", "c"], "samp": ["x", "y", "z"], "rows": [[0.0, 2.0, 1.0], [1.5, 0.0, 0.0], [4.0, 3.0, 7.0]],
             "omd": [{"grp": "a", "only0": "x"}, {"depth": 2}, {"grp": "b"}],
             "smd": [{"site": "gut"}, {"ph": 7}, {"site": "skin", "ph": 6}], "type": None}
    for steps in all_class_steps(max_len):
        run_pair(ctx, pair_case(DEFECT_SPEC, "csr_zeros", DEFECT_SPEC, "dense", steps, "equal"), ("interleaving",))
        run_pair(ctx, pair_case(spec2, "csr_unsorted", spec2, "transpose2", steps, "equal"), ("interleaving",))
        if len(steps) <= 2:
            run_pair(ctx, pair_case(spec2, "lol_coo_zeros", spec2d, "csc", steps, "differs"), ("interleaving",))
            run_pair(ctx, pair_case(spec3, "copy", spec3, "csr_unsorted", steps, "equal"), ("interleaving", "nonuniform-md"))
    if quick:
        for _ in range(60):
            run_pair(ctx, pair_case(spec2, rng.choice(CTOR_SPARSE), spec2, rng.choice(FORMS[:8]), gen_steps(rng, 3),
                                    "equal"), ("interleaving", "random-3"))

    # 3. all routes against each other on random specs
    n_specs = 24 if quick else 110
    for k in range(n_specs):
        spec = gen_spec(rng, quick)
        routes = list(ALL_ROUTES)
        rng.shuffle(routes)
        # each route against the dense construction, plus a ring of neighbours
        for i, r in enumerate(routes):
            steps = gen_steps(rng, rng.choice([0, 0, 1, 2, 3]))
            run_pair(ctx, pair_case(spec, r, spec, "dense" if i % 2 == 0 else routes[(i + 1) % len(routes)], steps,
                                    "equal", exports=(i % 10 == 0)), ("routes",))
        # transitivity / symmetry on families: 3 routes of the same content + one single-difference table
        for _ in range(3):
            kind, other = mutate(rng, spec)
            items = [{"spec": spec, "route": r} for r in rng.sample([x for x in ALL_ROUTES if not x.startswith("subsample")
                                                                   and x not in ("empty_list", "list_dict", "lol_coo",
                                                                                 "md_empty_form", "md_none_form")], 3)]
            if kind is not None:
                items.append({"spec": other, "route": rng.choice(["dense", "csr_zeros", "csc"])})
            rng.shuffle(items)
            run_family(ctx, {"kind": "family", "items": items}, ("family", "mutation=%s" % kind))

    # 4. subsample at full depth (tables whose vectors all have the same total)
    for k in range(40 if quick else 300):
        axis = rng.choice(["sample", "observation"])
        spec = gen_equal_totals_spec(rng, axis)
        if spec is None:
            continue
        route = "subsample_full_samp" if axis == "sample" else "subsample_full_obs"
        run_pair(ctx, pair_case(spec, route, spec, rng.choice(["dense", "csr_zeros", "csc", "lol_coo_zeros"]),
                                gen_steps(rng, rng.choice([0, 1, 3])), "equal", exports=(k % 4 == 0)), ("subsample",))

    # 4b. histories that change the content (partial subsample, partial filter) against a fresh construction
    #     of the content they reached
    for k in range(190 if quick else 800):
        spec = core.gen_spec(rng, max_n=4, max_m=4, classes=("count", "smallcount"))
        run_pair(ctx, pair_case(spec, rng.choice(CHANGING_ROUTES), None, rng.choice(["dense", "csr", "lol_coo_zeros", "csc"]),
                                gen_steps(rng, rng.choice([0, 0, 1, 2])), "equal", exports=(k % 10 == 0)),
                 ("changing-history",))

    # 4d. in-place changes (values along one axis, or two IDs swapped) on twins of equal content, one of which
    #     was read along that axis before the change; the same-axis questions come first afterwards
    for k in range(110 if quick else 800):
        spec = gen_spec(rng, quick, nonuniform=False)
        axis = rng.choice(["observation", "sample"])
        op = INPLACE_OPS[k % len(INPLACE_OPS)]
        ra = inplace_route(rng.choice(["dense", "csr_unsorted", "csc", "lol_coo_zeros"]), rng.choice([1, 1, 2]), op, axis)
        rb = inplace_route(rng.choice(["dense", "csr", "coo"]), 0, op, axis)
        first = "o" if axis == "observation" else "s"
        qorder = first + rng.choice(["", "c", "cs" if first == "o" else "co", "sc" if first == "o" else "oc"])
        acc_same = ["data_obs", "iter_obs"] if axis == "observation" else ["data_samp", "iter_samp"]
        st = [[rng.randint(0, 1), rng.choice(acc_same + ACCESSORS)] for _ in range(rng.choice([0, 1, 2]))]
        ctx.count("inplace-op=%s:%s" % (op, axis))
        if k % 2 == 0:
            run_pair(ctx, pair_case(spec, ra, spec, rb, st, "equal", exports=(k % 12 == 0), qorder=qorder),
                     ("inplace", "op=" + op))
        else:
            run_pair(ctx, pair_case(spec, rb, spec, ra, st, "equal", exports=(k % 12 == 1), qorder=qorder),
                     ("inplace", "op=" + op))

    # 4d2. transforms whose results mix zeros with negative / positive values and all-zero vectors, then
    #      norm / pa / rankdata / subsample, on both axes, in place and not: the result is compared FIRST (before
    #      anything could read nnz) with an independent construction of the same dense content, both ways, and with
    #      its own copy()
    for k in range(120 if quick else 700):
        spec = core.gen_spec(rng, max_n=4, max_m=4, classes=[("smallcount",), ("smallcount", "count"), VALUE_CLASSES][k % 3],
                             density=rng.choice([0.6, 0.8, 1.0]))
        axis = ["observation", "sample"][k % 2]
        chain = XFORM_CHAINS[(k // 2) % len(XFORM_CHAINS)]
        inplace = (k // 4) % 2 == 0
        ra = xform_route(rng.choice(["dense", "csc", "csr_unsorted", "lol_coo_zeros"]), rng.choice([0, 0, 1]), chain, axis, inplace)
        rb = ["dense", "copy_of_a", "csr", "lol_coo_zeros", "copy_of_a", "csc"][k % 6]
        st = gen_steps(rng, rng.choice([0, 1, 2]))
        ctx.count("xform=%s" % chain)
        run_pair(ctx, pair_case(spec, ra, None, rb, st, "equal", exports=(k % 15 == 0)), ("xform", "chain=" + chain))

    # 4d3. histories that must be the identity on content — selection of everything with the IDs given in every
    #      order and container kind, reordering into the current order, renaming IDs to themselves, transposing
    #      twice, ... — against an untouched, independently built twin
    for k in range(150 if quick else 700):
        spec = gen_spec(rng, quick, nonuniform=(k % 4 == 0))
        if k % 3 == 0:
            spec["omd"] = core.gen_md(rng, spec["obs"], kind="mixed")
            spec["smd"] = core.gen_md(rng, spec["samp"], kind="text")
        axis = ["observation", "sample"][k % 2]
        ops = IDENT_OPS[k % len(IDENT_OPS)]
        if k % 5 == 4:
            ops = ops + "+" + IDENT_OPS[(k * 7 + 3) % len(IDENT_OPS)]
        base = rng.choice(["dense", "csc", "csr_unsorted", "sort_samp_once" if False else "lol_coo_zeros"])
        ra = ident_route(base, ops, axis, (k // 2) % 2 == 0, k)
        rb = rng.choice(["dense", "csr", "csc"])
        st = gen_steps(rng, rng.choice([0, 0, 1]))
        ctx.count("identity-op=%s" % ops.split("+")[0])
        if k % 2:
            run_pair(ctx, pair_case(spec, ra, spec, rb, st, "equal", exports=(k % 17 == 0)), ("identity", "ops=" + ops))
        else:
            run_pair(ctx, pair_case(spec, rb, spec, ra, st, "equal", exports=(k % 17 == 0)), ("identity", "ops=" + ops))
    # idempotent operations applied once more
    for k in range(16 if quick else 200):
        spec = core.gen_spec(rng, max_n=4, max_m=4, classes=("smallcount", "count"), density=0.8)
        axis = ["observation", "sample"][k % 2]
        chain = ["shift0+pa", "shift1+rank"][k % 2]
        again = chain + "+" + chain.split("+")[-1]
        run_pair(ctx, pair_case(spec, xform_route("dense", 0, again, axis, k % 4 < 2), spec,
                                xform_route("csc", 0, chain, axis, False), [], "equal"), ("identity", "idempotent"))

    # 4d4. refused in-place calls (colliding or missing names in update_ids, unknown IDs, a raising predicate, an
    #      unknown axis, ...): the exception is caught and the table must still be its untouched twin — content,
    #      == both ways, exports, and every by-ID question through its own lookups
    for k in range(70 if quick else 600):
        spec = gen_spec(rng, quick, nonuniform=(k % 4 == 0))
        axis = ["observation", "sample"][k % 2]
        ops = REFUSED_OPS[k % len(REFUSED_OPS)]
        if k % 6 == 5:
            ops = ops + "+" + REFUSED_OPS[(k * 5 + 1) % len(REFUSED_OPS)]
        ra = refused_route(rng.choice(["dense", "csc", "csr_unsorted", "copy"]), ops, axis, k)
        rb = rng.choice(["dense", "csr", "lol_coo_zeros"])
        st = gen_steps(rng, rng.choice([0, 1, 1]))
        ctx.count("refused-op=%s" % ops.split("+")[0])
        if k % 2:
            run_pair(ctx, pair_case(spec, ra, spec, rb, st, "equal", exports=(k % 9 == 0)), ("refused", "ops=" + ops))
        else:
            run_pair(ctx, pair_case(spec, rb, spec, ra, st, "equal", exports=(k % 9 == 0)), ("refused", "ops=" + ops))

    # 4d5. metadata keys bound to None: content like any other entry (equal pairs through routes; one such key more
    #      or less is a difference, both ways round)
    for k in range(40 if quick else 500):
        spec = gen_spec(rng, quick, nonuniform=False)
        for ax, ids in (("omd", spec["obs"]), ("smd", spec["samp"])):
            if k % 3 != (0 if ax == "omd" else 1):
                spec[ax] = [{"grp": rng.choice(["a", "b"]), "unset": None if (i + k) % 2 == 0 else "set"} for i in range(len(ids))]
        if k % 4 == 0:
            spec["omd"] = [{"unset": None} for _ in spec["obs"]]
        ra = rng.choice(["dense", "csc", "copy", "sort_roundtrip", "md_reordered"])
        rb = rng.choice(["dense", "csr_zeros", "lol_dense", "transpose2"])
        run_pair(ctx, pair_case(spec, ra, spec, rb, gen_steps(rng, rng.choice([0, 1])), "equal", exports=(k % 5 == 0)),
                 ("none-valued-md",))
        other = copy.deepcopy(spec)
        ax = "omd" if other.get("omd") else "smd"
        i = rng.randrange(len(other[ax]))
        if "unset" in other[ax][i] and other[ax][i]["unset"] is None and k % 2:
            del other[ax][i]["unset"]              # the key bound to None goes away on one ID
            if k % 4 == 0:
                other[ax] = None if all(not e for e in other[ax]) else other[ax]
        else:
            other[ax][i]["another_unset"] = None   # ... or one more such key appears
        ctx.count("single-difference=md_none_key")
        if k % 2:
            run_pair(ctx, pair_case(spec, ra, other, rb, [], "differs"), ("none-valued-md", "single-difference"))
        else:
            run_pair(ctx, pair_case(other, rb, spec, ra, [], "differs"), ("none-valued-md", "single-difference"))

    # 4e. metadata dicts that differ only in key insertion order on some IDs: equal tables, equal exports
    for k in range(50 if quick else 600):
        spec = gen_spec(rng, quick, nonuniform=False)
        if k % 2 == 0 or not reorderable(spec.get("omd")):
            spec["omd"] = core.gen_md(rng, spec["obs"], kind=rng.choice(["mixed", "text"]))
        if k % 3 == 0:
            spec["smd"] = core.gen_md(rng, spec["samp"], kind=rng.choice(["mixed", "text"]))
        route = ["md_reordered", "md_completed_later"][k % 2]
        other = rng.choice(["dense", "csr", "copy", "csc", "md_reordered"])
        st = gen_steps(rng, rng.choice([0, 0, 1]))
        if k % 4 < 2:
            run_pair(ctx, pair_case(spec, route, spec, other, st, "equal", exports=True), ("key-order", "route=" + route))
        else:
            run_pair(ctx, pair_case(spec, other, spec, route, st, "equal", exports=True), ("key-order", "route=" + route))

    # 4f. aliasing: the SOURCE of a derivation (kept alive) after the derived table was updated in place must
    #     still equal an independent construction, have its content, and answer by ID through its own lookups
    for k in range(80 if quick else 800):
        spec = gen_spec(rng, quick, nonuniform=(k % 5 == 0))
        if k % 3 == 0 and spec.get("omd") is None:
            spec["omd"] = core.gen_md(rng, spec["obs"], kind="mixed")
        how = DERIVATIONS[k % len(DERIVATIONS)]
        op = ALIAS_OPS[(k // len(DERIVATIONS) + k) % len(ALIAS_OPS)]
        ra = alias_route(rng.choice(["dense", "csc", "csr_unsorted", "ids_wide_dtype", "ids_object_dtype"]), how, op)
        rb = rng.choice(["dense", "csr", "lol_coo_zeros"])
        st = gen_steps(rng, rng.choice([0, 0, 1]))
        ctx.count("alias=%s" % how)
        if k % 2:
            run_pair(ctx, pair_case(spec, ra, spec, rb, st, "equal", exports=(k % 15 == 0)), ("alias", "derive=" + how, "op=" + op))
        else:
            run_pair(ctx, pair_case(spec, rb, spec, ra, st, "equal", exports=(k % 15 == 0)), ("alias", "derive=" + how, "op=" + op))

    # 4g. a few wide tables (>= 64 IDs on one axis), IDs in non-axis order: equal pair, a difference in the LAST
    #     cell, a look-alike LAST ID, an in-place twin and an aliased source, on both axes
    for k in range(4 if quick else 24):
        axis = ["sample", "observation"][k % 2]
        spec = core.wide_spec(rng, axis=axis, classes=VALUE_CLASSES, md=(k % 2 == 0))
        ids = spec["samp"] if axis == "sample" else spec["obs"]
        rng.shuffle(ids)
        spec["type"] = rng.choice(core.TYPES)
        for r in spec["rows"]:
            r[-1] = r[-1] or 3.0
        spec["rows"][-1] = [v or 2.0 for v in spec["rows"][-1]]
        ctx.count("wide=%s:%d" % (axis, len(ids)))
        run_pair(ctx, pair_case(spec, "csr_unsorted", spec, "csc", gen_steps(rng, 2), "equal", exports=(k < 2)), ("wide",))
        cell = copy.deepcopy(spec)
        cell["rows"][-1][-1] = cell["rows"][-1][-1] + 1.0
        run_pair(ctx, pair_case(spec, "lol_coo_zeros", cell, "coo", gen_steps(rng, 1), "differs"), ("wide", "last_cell"))
        run_pair(ctx, pair_case(cell, "dense", spec, "csr_unsorted", [], "differs"), ("wide", "last_cell"))
        lid = copy.deepcopy(spec)
        tgt = lid["samp"] if axis == "sample" else lid["obs"]
        tgt[-1] = tgt[-1] + rng.choice([" ", "_" * 9, "\u00e9"])
        run_pair(ctx, pair_case(lid, "csc", spec, "dense", [], "differs"), ("wide", "last_id"))
        lmd = copy.deepcopy(spec)
        if lmd.get("smd") and lmd.get("omd"):
            (lmd["smd"] if axis == "sample" else lmd["omd"])[-1]["grp"] = "last-changed"
            run_pair(ctx, pair_case(spec, "dense", lmd, "csr", [], "differs"), ("wide", "last_md"))
        run_pair(ctx, pair_case(spec, inplace_route("dense", 1, "scale", axis), spec, inplace_route("csc", 0, "scale", axis),
                                [], "equal", qorder="o" if axis == "observation" else "s"), ("wide", "inplace"))
        run_pair(ctx, pair_case(spec, alias_route("dense", "sort_order", "rename_ids"), spec, "sort_roundtrip",
                                gen_steps(rng, 1), "equal"), ("wide", "alias"))

    # 4h. less travelled inputs: canonically equivalent spellings (NFC / NFD) as DISTINCT IDs on one axis, texts with
    #     '%', quotes, U+2028/2029/0085, form feed ...; the same names on both axes; partially annotated axes;
    #     denormals, integers above 2**24 and arbitrary bit patterns as values (a difference of one ulp must show)
    import math
    for k in range(60 if quick else 400):
        n, m = rng.randint(2, 4), rng.randint(2, 4)
        pool = core.twin_ids(rng, 2) + rng.sample(core.NASTY_TEXTS, 4)
        rng.shuffle(pool)
        obs = pool[:n]
        samp = (pool[:m] if k % 3 == 0 else [x for x in pool[::-1]][:m])      # names shared across both axes
        classes = [VALUE_CLASSES, ("big", "tiny"), ("bits",)][k % 3]
        spec = {"obs": obs, "samp": samp, "rows": core.gen_grid(rng, n, m, rng.choice([0.5, 0.8, 1.0]), classes),
                "omd": None, "smd": None, "type": rng.choice(core.TYPES)}
        if k % 2 == 0:
            # partially annotated: some IDs carry an entry, others an empty one / None
            spec["omd"] = [({"grp": "g%d" % i, "note": core.NASTY_TEXTS[(k + i) % len(core.NASTY_TEXTS)]} if i % 2 == 0 else {})
                           for i in range(n)]
        ra = rng.choice(["dense", "csr_unsorted", "csc", "lol_coo_zeros", "ids_object_dtype", "ids_wide_dtype"])
        rb = rng.choice(["dense", "csr_zeros", "copy", "sort_roundtrip", "md_none_form" if spec["omd"] is None else "coo"])
        ctx.count("text-ids/value-class=%s" % "+".join(classes))
        run_pair(ctx, pair_case(spec, ra, spec, rb, gen_steps(rng, rng.choice([0, 1, 2])), "equal", exports=(k % 6 == 0)),
                 ("less-travelled",))
        other = copy.deepcopy(spec)
        kind = ["normalisation", "value_ulp", "swap_twins", "partial_md"][k % 4]
        if kind == "normalisation":
            # one ID replaced by the other spelling of the same text (still distinct from every ID present)
            done = False
            for ax in ("obs", "samp"):
                for a_, b_ in core.NORMALISATION_PAIRS:
                    for x, y in ((a_, b_), (b_, a_)):
                        if not done and x in other[ax] and y not in other[ax]:
                            other[ax][other[ax].index(x)] = y
                            done = True
            if not done:
                other["obs"][0] = other["obs"][0] + "\u0301"
        elif kind == "value_ulp":
            cells = [(i, j) for i in range(n) for j in range(m) if spec["rows"][i][j] != 0]
            if not cells:
                continue
            i, j = rng.choice(cells)
            v = spec["rows"][i][j]
            other["rows"][i][j] = math.nextafter(v, math.inf if k % 8 < 4 else -math.inf)
            if not math.isfinite(other["rows"][i][j]) or other["rows"][i][j] == 0:
                other["rows"][i][j] = math.nextafter(v, 0.0) or v * 2
            if abs(v) >= 2.0 ** 24 and float(v).is_integer() and abs(v) < 2.0 ** 52:
                other["rows"][i][j] = v + 1.0
        elif kind == "swap_twins":
            i, j = 0, 1
            other["obs"][i], other["obs"][j] = other["obs"][j], other["obs"][i]
        else:
            if spec["omd"] is None:
                other["omd"] = [({"grp": "g"} if i == n - 1 else {}) for i in range(n)]
            else:
                other["omd"][1] = {"grp": "late"}
        ctx.count("less-travelled-difference=" + kind)
        if k % 2:
            run_pair(ctx, pair_case(spec, ra, other, rb, [], "differs"), ("less-travelled", kind))
        else:
            run_pair(ctx, pair_case(other, rb, spec, ra, [], "differs"), ("less-travelled", kind))
    # one table with more than 512 IDs on an axis
    for k in range(1 if quick else 4):
        axis = ["sample", "observation"][(k + ctx.seed) % 2]
        spec = core.wide_spec(rng, n_axis=rng.choice([520, 600]), other=2, axis=axis, classes=VALUE_CLASSES)
        spec["rows"][-1][-1] = spec["rows"][-1][-1] or 1.0
        c = pair_case(spec, "csr_unsorted", spec, "dense", [[0, "data_samp"]], "equal", qorder="c")
        c["sweep"] = False
        run_pair(ctx, c, ("wide", "above-512"))
        cell = copy.deepcopy(spec)
        cell["rows"][-1][-1] += 1.0
        c = pair_case(cell, "csc", spec, "csr_unsorted", [], "differs", qorder="o" if axis == "sample" else "s")
        run_pair(ctx, c, ("wide", "above-512", "last_cell"))
        c = pair_case(spec, ident_route("dense", "filter_list_rev", axis, False, k), spec, "csr", [], "equal",
                      qorder="o" if axis == "sample" else "s")
        c["sweep"] = False
        run_pair(ctx, c, ("wide", "above-512", "identity"))

    # 4c. one extra metadata key on one ID, compared both ways round (smaller table on the left and on the right),
    #     built by construction and by add_metadata
    for k in range(60 if quick else 800):
        spec = gen_spec(rng, quick)
        kind, other = mutate(rng, spec, only="md_extra_key")
        if kind is None:
            continue
        ra = rng.choice(["dense", "csr", "csc", "copy", "lol_dense"])
        rb = rng.choice(["dense", "csr_zeros", "coo", "transpose2"])
        st = gen_steps(rng, rng.choice([0, 0, 1]))
        run_pair(ctx, pair_case(spec, ra, other, rb, st, "differs"), ("single-difference", "mutation=md_extra_key", "small-left"))
        run_pair(ctx, pair_case(other, rb, spec, ra, st, "differs"), ("single-difference", "mutation=md_extra_key", "big-left"))
        route = rng.choice(["add_md_one_obs", "add_md_one_samp"])
        run_pair(ctx, pair_case(spec, ra, spec, route, st, "differs"), ("single-difference", "mutation=add_metadata", "small-left"))
        run_pair(ctx, pair_case(spec, route, spec, ra, st, "differs"), ("single-difference", "mutation=add_metadata", "big-left"))
        ctx.count("single-difference=md_extra_key", 2)
        ctx.count("single-difference=add_metadata", 2)

    # 5. single-difference pairs
    for k in range(230 if quick else 1800):
        spec = gen_spec(rng, quick)
        kind, other = mutate(rng, spec)
        if kind is None:
            continue
        ra = rng.choice(["dense"] + CTOR_SPARSE + ["lol_coo_zeros", "dict_zeros", "sort_roundtrip", "copy"])
        rb = rng.choice(["dense"] + CTOR_SPARSE + ["lol_dense", "list_nparray", "transpose2"])
        ctx.count("single-difference=" + kind)
        st = gen_steps(rng, rng.choice([0, 0, 1, 2]))
        if rng.random() < 0.5:
            run_pair(ctx, pair_case(spec, ra, other, rb, st, "differs"), ("single-difference", "mutation=" + kind))
        else:
            run_pair(ctx, pair_case(other, rb, spec, ra, st, "differs"), ("single-difference", "mutation=" + kind))

    # 6. kernel level: dataEq vs the real _data_equality, eliminateZeros vs scipy's eliminate_zeros
    for k in range(300 if quick else 8000):
        run_kernel(ctx, gen_kernel_case(rng), ("kernel",))

    state_cases("late")

    # nothing may be left behind
    mine = "%d_" % os.getpid()
    left = [f for f in os.listdir(TMP) if f.endswith(".h5") and mine in f] if os.path.isdir(TMP) else []
    if left:
        ctx.notes.append("temp files left under %s: %s" % (TMP, left))


def replay(ctx, rec):
    os.makedirs(TMP, exist_ok=True)
    case = rec["case"]
    if case.get("kind") in ("pair", "family", "kernel"):
        dispatch(ctx, case, ("replay",))
    elif case.get("kind") == "foreign":
        run_foreign(ctx)
    elif case.get("kind") == "probe-p16":
        run_probe(ctx)
    else:
        raise ValueError("cannot replay case %r" % (case,))
