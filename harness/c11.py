"""C11 — partition is an exact split; collapse conserves what it aggregates.

Runs the real `Table.partition` / `Table.collapse` (one-to-one and one-to-many) on generated
receivers, canonicalises what came out (IDs, cells, metadata, shape, error class) and has Lean
evaluate the property's predicate on that observation and compare it with the model's result.
The labelling function's result per ID (computed here, independently of the library's own
iteration) is the model's input.
"""
import contextlib
import copy
import json
import warnings

from . import core

SEP = "\x1f"
BASE = 840.0          # lcm(1..8): sums / member counts / group counts up to 8 divide exactly in binary64


# ----------------------------------------------------------------------------- generators
# value classes -- all exact in binary64 so that the comparison with the rational model stays exact.
# "divisible" classes are multiples of 840/2^j: sums AND divisions by any member / group count <= 8 are exact,
# so they go with every mode (norm, divide).  The other classes go with the modes that only add.
DIVISIBLE = ["int840", "frac840", "frac840", "large840", "mixed840"]
ADD_ONLY = ["smallint", "dyadic", "dyadic", "large"]


def gen_val(rng, cls="int840"):
    if cls == "mixed840":
        cls = rng.choice(["int840", "frac840"])
    k = rng.randint(1, 12)
    if cls == "int840":                                  # whole numbers: 840*k/2^j, j <= 3
        v = BASE * k / float(2 ** rng.choice([0, 0, 0, 1, 2, 3]))
    elif cls == "frac840":                               # NON-integers, some in (0,1): 840*k/2^j, 4 <= j <= 12
        v = BASE * rng.choice([1, 1, 3, 5, 7, 9, 11]) / float(2 ** rng.randint(4, 12))
    elif cls == "large840":                              # large, still divisible: 840*k*2^e
        v = BASE * k * float(2 ** rng.randint(20, 30))
    elif cls == "smallint":
        v = float(rng.randint(1, 9))
    elif cls == "dyadic":                                # 0.5, 1.5, 0.125, 3.75, ... incl. values in (0,1)
        v = rng.choice([1, 1, 3, 5, 7, 13, 31, 63]) / float(2 ** rng.randint(1, 6))
    elif cls == "large":
        v = float(rng.choice([2 ** 40, 3 * 2 ** 38, 123456789 * 2 ** 10, 2 ** 45 + 2 ** 20, 2 ** 24 + 1, 2 ** 31 + 1]))
    elif cls == "arbitrary":
        # any finite double: only for operations that CARRY values (partition, singleton groups)
        v = rng.choice([0.1, 0.3, 1.0 / 3.0, 5e-324, 2.2250738585072014e-308, 1e-7, 1e300, 16777217.0,
                        2.0 ** 53 + 2, 123456789.123, 0.7, 1e-320])
    else:
        raise ValueError(cls)
    if rng.random() < 0.15:
        v = -v
    return v


def gen_grid(rng, n, m, cls="int840"):
    density = rng.choice([0.15, 0.4, 0.6, 0.85, 1.0])
    g = [[gen_val(rng, cls) if rng.random() < density else 0.0 for _ in range(m)] for _ in range(n)]
    if n > 1 and rng.random() < 0.25:
        g[rng.randrange(n)] = [0.0] * m
    if m > 1 and rng.random() < 0.25:
        j = rng.randrange(m)
        for r in g:
            r[j] = 0.0
    return g


PATH_BINS = ["K1", "K2", "K3", "ko:x", "é", "b b", "caf\u00e9", "cafe\u0301", "50%", "\"q", "ls\u2028x"]


def gen_paths(rng):
    """a one-to-many annotation: 0..3 pathways, duplicates allowed, sometimes one too short"""
    n = rng.choice([0, 1, 1, 2, 2, 3, 3])
    out = []
    for _ in range(n):
        top = rng.choice(["Metab", "Info"])
        p = [top, rng.choice(PATH_BINS)]
        if rng.random() < 0.12:
            p = [top]                       # incomplete pathway: indexing level 1 raises IndexError
        out.append(p)
    if out and rng.random() < 0.25:
        out.append(list(rng.choice(out)))   # the same group listed twice
    return out


def gen_axis_md(rng, ids, kind):
    if kind == "none":
        return None
    md = []
    for i, _ in enumerate(ids):
        e = {"grp": rng.choice(["a", "b", "c"]), "depth": rng.randint(0, 2),
             "taxonomy": ["k__%s" % rng.choice("AB"), "p__%s" % rng.choice("xy")],
             "paths": gen_paths(rng)}
        if kind == "partial":
            e = {k: e[k] for k in ("grp", "paths")}
        if kind == "sparse":
            # some IDs carry no metadata at all: a part / a filtered table made only of those has NO metadata
            e = {"note": "n%d" % rng.randint(0, 2)} if rng.random() < 0.45 else {}
        md.append(e)
    return md


def awkward_ids(rng, ids):
    """sometimes: an ID ending in a blank / newline, an ID that extends another one, a very long ID
    (IDs live in fixed-width arrays; collapsed_ids and parts must carry them unchanged)"""
    ids = list(ids)
    c = rng.random()
    if c < 0.08 and len(ids) >= 2:
        # NFC and NFD spellings of one text are two DISTINCT IDs of the same axis
        a, b = core.twin_ids(rng, 1)
        i, j = rng.sample(range(len(ids)), 2)
        if a not in ids and b not in ids:
            ids[i], ids[j] = a, b
        return ids
    if c < 0.16:
        k = rng.randrange(len(ids))
        new = ids[k][0] + rng.choice(core.NASTY_TEXTS)
        if new not in ids:
            ids[k] = new
        return ids
    if rng.random() < 0.2:
        k = rng.randrange(len(ids))
        c = rng.choice(["blank", "newline", "extend", "long"])
        new = {"blank": ids[k] + " ", "newline": ids[k] + "\n", "extend": ids[0] + "0",
               "long": ids[k] + "_" * 40 + "é"}[c]
        if new not in ids:
            ids[k] = new
    return ids


def gen_spec(rng, max_n, max_m):
    n = rng.randint(1, max_n)
    m = rng.randint(1, max_m)
    obs = awkward_ids(rng, core.gen_ids(rng, n, "O"))
    samp = awkward_ids(rng, core.gen_ids(rng, m, "S"))
    if rng.random() < 0.1:
        x = rng.choice(obs)                   # the same name on both axes
        if x not in samp:
            samp[rng.randrange(m)] = x
    cls = rng.choice(DIVISIBLE + ADD_ONLY + ["arbitrary"])
    return {"obs": obs, "samp": samp, "rows": gen_grid(rng, n, m, cls), "vclass": cls,
            "omd": gen_axis_md(rng, obs, rng.choice(["full", "full", "partial", "none", "sparse"])),
            "smd": gen_axis_md(rng, samp, rng.choice(["full", "full", "partial", "none", "sparse"])),
            "type": rng.choice(core.TYPES)}


HISTORIES = ["none", "none", "copy", "transpose2", "reverse_axis", "reverse_other", "drop_one", "scale",
             "part_of_partition", "collapsed", "warm_then_inplace", "warm_then_inplace"]


def apply_history(rng, t, hist, axis):
    other = "observation" if axis == "sample" else "sample"
    if hist == "none":
        return t
    if hist == "copy":
        return t.copy()
    if hist == "transpose2":
        return t.transpose().transpose()
    if hist == "reverse_axis":
        return t.sort_order(list(t.ids(axis=axis))[::-1], axis=axis)
    if hist == "reverse_other":
        return t.sort_order(list(t.ids(axis=other))[::-1], axis=other)
    if hist == "drop_one":
        ids = list(t.ids(axis=axis))
        if len(ids) < 2:
            return t
        drop = rng.choice(ids)
        return t.filter([i for i in ids if i != drop], axis=axis, inplace=False)
    if hist == "scale":
        return t.transform(lambda v, i, m: v * 2.0, axis=axis, inplace=False)
    if hist == "warm_then_inplace":
        # (ii) caches keyed by object identity: run the operations once, change the SAME table in place
        # (matrix / ID arrays / metadata objects stay), the checked call must see the current content
        for ax in rng.sample(["sample", "observation"], 2):
            list(t.partition(lambda i, m: i[-1], axis=ax))
            t.collapse(lambda i, m: "g%d" % (len(i) % 2), axis=ax, norm=False)
            if t.metadata(axis=ax) is not None:
                t.collapse(lambda i, m: iter([("p", "b")]), axis=ax, norm=False, one_to_many=True)
        for _ in range(rng.randint(1, 2)):
            inplace_change(rng, t, rng.choice(["sample", "observation"]))
        return t
    if hist == "part_of_partition":
        parts = list(t.partition(lambda i, m: i[-1] < "h", axis=other))
        p = rng.choice(parts)[1]
        return p
    if hist == "collapsed":
        c = t.collapse(lambda i, m: "g" + str(len(i) % 2), axis=other, norm=False)
        return c
    raise ValueError(hist)


# ----------------------------------------------------------------------------- labellers (named family)
def labeler(name, arg, ids):
    """returns f(id, md); every member is deterministic in (id, md)"""
    pos = {i: k for k, i in enumerate(ids)}
    if name == "by_md":
        return lambda i, m: m[arg]
    if name == "by_md_list":
        return lambda i, m: list(m[arg])
    if name == "by_md_tuple":
        return lambda i, m: tuple(m[arg])
    if name == "last_char":
        return lambda i, m: i[-1]
    if name == "const":
        return lambda i, m: arg
    if name == "identity":
        return lambda i, m: i
    if name == "id_len":
        return lambda i, m: len(i)
    if name == "list_of_id":
        return lambda i, m: [i[0], i[-1]]
    if name == "pos_mod":
        return lambda i, m: "r%d" % (pos[i] % arg)
    if name == "none_some":
        return lambda i, m: None if pos[i] in arg else "k%d" % (pos[i] % 2)
    if name == "none_all":
        return lambda i, m: None
    if name == "mixed_list_tuple":
        return lambda i, m: [i[-1]] if pos[i] % 2 else (i[-1],)
    if name == "falsy_mix":
        # falsy labels are labels: only None is dropped by ignore_none
        return lambda i, m: [0, "", [], None, "a", ()][(pos[i] + arg) % 6]
    if name == "equal_types":
        # python-equal values of different types are one label (one dict key); 0 / False / -0.0 are not None
        return lambda i, m: [1, True, 1.0, 0, False, -0.0, 2, None][(pos[i] + arg) % 8]
    if name == "array_label":
        import numpy as np
        return lambda i, m: np.array([i[0], i[-1]])
    if name == "nasty_label":
        # labels that become IDs: '%' forms, quotes, U+2028.., NFC/NFD twins as distinct labels
        return lambda i, m: arg[pos[i] % len(arg)]
    if name == "long_label":
        # the label becomes an ID longer than every existing one, non-ASCII, ending in a blank
        return lambda i, m: "L" + "x" * 50 + "é" + str(pos[i] % arg) + " "
    raise ValueError(name)


def gen_labeler(rng, ids, md, for_collapse):
    names = ["last_char", "const", "identity", "pos_mod", "pos_mod", "none_some", "long_label", "nasty_label"]
    if not for_collapse:
        names += ["id_len", "list_of_id", "none_all", "mixed_list_tuple", "falsy_mix", "falsy_mix", "equal_types",
                  "array_label"]
    if md is not None:
        keys = set.intersection(*[set(m.keys()) for m in md]) if md else set()
        if "grp" in keys:
            names += ["by_md:grp"] * 3
        if "depth" in keys and not for_collapse:
            names += ["by_md:depth"]
        if "taxonomy" in keys and not for_collapse:
            names += ["by_md_list:taxonomy", "by_md_tuple:taxonomy"]
    n = rng.choice(names)
    if ":" in n:
        name, arg = n.split(":")
    elif n == "const":
        name, arg = n, "all"
    elif n in ("pos_mod", "long_label"):
        name, arg = n, rng.choice([2, 2, 3])
    elif n == "falsy_mix":
        name, arg = n, rng.randrange(6)
    elif n == "equal_types":
        name, arg = n, rng.randrange(8)
    elif n == "nasty_label":
        name, arg = n, rng.sample(core.NASTY_TEXTS + core.twin_ids(rng, 2), rng.choice([2, 3]))
    elif n == "none_some":
        k = len(ids)
        name, arg = n, sorted(rng.sample(range(k), rng.randint(0, k)))
    else:
        name, arg = n, None
    return name, arg


def label_json(v):
    if v is None:
        return None
    if isinstance(v, bool):
        return {"i": int(v)}              # True == 1 == 1.0 are ONE dict key in Python: one group
    if isinstance(v, float) and v == int(v):
        return {"i": int(v)}              # 1.0, -0.0
    if isinstance(v, str):
        return {"s": v}
    if isinstance(v, int):
        return {"i": v}
    if isinstance(v, tuple):
        return {"t": [str(x) for x in v]}
    if isinstance(v, list):
        return {"l": [str(x) for x in v]}
    try:
        import numpy as np
        if isinstance(v, np.ndarray):
            return {"l": [str(x) for x in v.tolist()]}     # unhashable like a list: tupled by the library
        if isinstance(v, np.bool_):
            return {"i": int(v)}
        if isinstance(v, np.str_):
            return {"s": str(v)}
        if isinstance(v, np.integer):
            return {"i": int(v)}
    except Exception:
        pass
    return {"s": "?%r" % (v,)}


def gen_dict_form(rng, ids, other_ids=()):
    """(python dict, JSON description) in one of the two accepted forms.  Group names come from several
    namespaces: plain names, awkward texts, the IDs of this very axis (every group named after one of its
    members / after a non-member, or only some groups), the IDs of the other axis"""
    if rng.random() < 0.06:
        return {}, {"kind": rng.choice(["id2grp", "grp2ids"]), "map": []}
    groups = ["ga", "gb", "gc"]
    ns = rng.random()
    if ns < 0.2:
        groups = rng.sample(core.NASTY_TEXTS + core.twin_ids(rng, 2), 3)
        naming = "awkward"
    elif ns < 0.45 and ids:
        groups = rng.sample(list(ids), min(3, len(ids)))            # EVERY group label is an ID of this axis
        naming = "all-axis-ids"
    elif ns < 0.55 and ids:
        groups = [rng.choice(list(ids)), "gb", "gc"]                # only some are
        rng.shuffle(groups)
        naming = "some-axis-ids"
    elif ns < 0.65 and other_ids:
        groups = rng.sample(list(other_ids), min(3, len(other_ids)))
        naming = "other-axis-ids"
    else:
        naming = "plain"
    pool = list(ids) + ["unknown-id"] + core.tricky_unknown_ids(ids)[:rng.randint(0, 3)]
    if rng.random() < 0.5:
        chosen = [i for i in pool if rng.random() < 0.7] or [pool[0]]
        rng.shuffle(chosen)
        d = {i: rng.choice(groups) for i in chosen}
        return d, {"kind": "id2grp", "map": [[k, v] for k, v in d.items()], "naming": naming}
    d = {}
    gs = groups[:rng.randint(1, len(groups))]
    rng.shuffle(gs)
    seeded = naming == "all-axis-ids" and rng.random() < 0.6
    for g in gs:
        members = [i for i in pool if rng.random() < 0.45]   # overlaps and empty groups happen
        if seeded and g not in members:
            members.append(g)                                # a cluster named after its representative member
        rng.shuffle(members)
        if members and rng.random() < 0.25:
            members.insert(rng.randrange(len(members) + 1), rng.choice(members))   # an ID named twice
        d[g] = tuple(members) if rng.random() < 0.3 else members
    return d, {"kind": "grp2ids", "map": [[k, list(v)] for k, v in d.items()], "naming": naming}


# ----------------------------------------------------------------------------- the same argument object, used before
class LutLabeler:
    """a labelling function object with mutable state: label = lut[id]"""

    def __init__(self, lut):
        self.lut = lut

    def __call__(self, i, m):
        return self.lut[i]


def vary_mapping(rng, d, kind, ids):
    """another mapping of the same form (an ID moved, a group added / dropped, a member list reversed)"""
    v = {k: (list(x) if isinstance(x, (list, tuple)) else x) for k, x in d.items()}
    pool = list(ids) or ["x"]
    for _ in range(rng.randint(1, 3)):
        c = rng.random()
        if kind == "grp2ids":
            if c < 0.4 and v:
                src = rng.choice(list(v))
                dst = rng.choice(list(v) + ["gz"])
                if v[src]:
                    x = v[src].pop(rng.randrange(len(v[src])))
                    v.setdefault(dst, []).append(x)
                else:
                    v.setdefault(dst, []).append(rng.choice(pool))
            elif c < 0.7:
                v["g-new-%d" % len(v)] = [i for i in pool if rng.random() < 0.5] or [pool[0]]
            elif c < 0.85 and len(v) > 1:
                del v[rng.choice(list(v))]
            elif v:
                k = rng.choice(list(v))
                v[k] = v[k][::-1] + [rng.choice(pool)]
        else:
            if c < 0.5 and v:
                v[rng.choice(list(v))] = rng.choice(["ga", "gb", "gz"])
            elif c < 0.8:
                v[rng.choice(pool)] = rng.choice(["gz", "ga"])
            elif len(v) > 1:
                del v[rng.choice(list(v))]
    if not v:
        v = {"gz": [pool[0]]} if kind == "grp2ids" else {pool[0]: "gz"}
    return v


def set_in_place(d, target):
    """make the dict object `d` hold `target` (same keys in the same order), keeping `d` and, where possible,
    its inner list objects alive"""
    items = []
    for k, v in target.items():
        old = d.get(k)
        if isinstance(old, list) and isinstance(v, list):
            old[:] = v
            v = old
        items.append((k, v))
    d.clear()
    d.update(items)


def warm_calls(rng, t, axis, arg, otm=False):
    """use the argument object on this very table (either axis, partition consumed fully or up to the first
    part, collapse) -- whatever it returns or raises is not judged here"""
    other = "observation" if axis == "sample" else "sample"
    for _ in range(rng.randint(1, 2)):
        ax = axis if rng.random() < 0.8 else other
        c = rng.random()
        try:
            if otm:
                t.collapse(arg, norm=False, one_to_many=True, one_to_many_mode=rng.choice(["add", "divide"]), axis=ax)
            elif c < 0.4:
                list(t.partition(arg, axis=ax))
            elif c < 0.6:
                next(iter(t.partition(arg, axis=ax, remove_empty=rng.random() < 0.5)), None)
            else:
                t.collapse(arg, norm=False, axis=ax, min_group_size=rng.choice([1, 2]))
        except Exception:
            pass


def reuse_dict(ctx, rng, t, axis, d, kind, ids):
    """the SAME dict object was used on this table with OTHER content, then edited in place to its present content"""
    target = {k: (list(v) if isinstance(v, list) else v) for k, v in d.items()}
    for _ in range(rng.randint(1, 2)):
        set_in_place(d, vary_mapping(rng, target, kind, ids))
        warm_calls(rng, t, axis, d)
    set_in_place(d, target)
    ctx.count("reuse:same_dict_object_edited_in_place=%s" % kind)


def reuse_lut(ctx, rng, t, axis, ids, labels):
    """a labelling function OBJECT whose state changed between two uses on the same table"""
    f = LutLabeler({})
    for _ in range(rng.randint(1, 2)):
        k = rng.randrange(1, max(2, len(labels)))
        f.lut.clear()
        f.lut.update(zip(ids, labels[k:] + labels[:k]))
        warm_calls(rng, t, axis, f)
    f.lut.clear()
    f.lut.update(zip(ids, labels))
    ctx.count("reuse:same_function_object_with_changed_state")
    return f


def reentrant(f, t, axis, rng):
    """a labeller that, while being asked, uses the same table again (partition / collapse on either axis)"""
    state = {"n": 0}
    axes = [axis, "observation" if axis == "sample" else "sample"]

    def g(i, m):
        state["n"] += 1
        if state["n"] in (1, 3):
            for ax in axes:
                list(t.partition(lambda a, b: a[-1], axis=ax))
                t.collapse(lambda a, b: "z", axis=ax, norm=False)
        return f(i, m)
    return g


# ----------------------------------------------------------------------------- one-to-many generators
class Scripted:
    """an iterator whose `next` replays a script: a pair is returned, None raises IndexError"""

    def __init__(self, script):
        self.script = list(script)

    def __iter__(self):
        return self

    def __next__(self):
        if not self.script:
            raise StopIteration
        e = self.script.pop(0)
        if e is None:
            raise IndexError("scripted incomplete pathway")
        return e


def path_text(p):
    return json.dumps(core.canon_value(p), sort_keys=True, ensure_ascii=False)


def otm_generator(kind, level, scripts):
    if kind == "md_paths":
        def f(id_, md):
            for path in md["paths"]:
                yield (path, path[level])
        return f
    if kind == "scripted":
        return lambda id_, md: Scripted(scripts[id_])
    raise ValueError(kind)


def otm_events(kind, level, scripts, ids, md):
    """what `next` does call by call for every ID, derived without running the library"""
    out = []
    for i, id_ in enumerate(ids):
        ev = []
        if kind == "md_paths":
            for path in md[i]["paths"]:
                if len(path) <= level:
                    ev.append(None)      # the generator dies on the IndexError: nothing follows
                    break
                ev.append([path_text(path), path[level]])
        else:
            for e in scripts[id_]:
                ev.append(None if e is None else [path_text(e[0]), e[1]])
        out.append(ev)
    return out


def gen_scripts(rng, ids):
    scripts = {}
    for id_ in ids:
        n = rng.choice([0, 1, 2, 2, 3, 3])
        s = []
        for _ in range(n):
            if rng.random() < 0.1:
                s.append(None)
            else:
                b = rng.choice(PATH_BINS)
                s.append((["P", b, rng.choice(["u", "v"])], b))
        if s and rng.random() < 0.3:
            dup = rng.choice([e for e in s if e is not None] or [None])
            if dup is not None:
                s.append(dup)
        scripts[id_] = s
    return scripts


# ----------------------------------------------------------------------------- observation
def canon_axis_md(md):
    """metadata of a collapsed axis: `collapsed_ids` lists become SEP-joined text (Lean twin: joinIds)"""
    if md is None:
        return None
    out = []
    for m in md:
        e = {}
        for k, v in (m or {}).items():
            if k == "collapsed_ids" and isinstance(v, (list, tuple)) and all(isinstance(x, str) for x in v):
                e[k] = SEP.join(str(x) for x in v)
            else:
                e[str(k)] = json.dumps(core.canon_value(v), sort_keys=True, ensure_ascii=False)
        out.append(e)
    return out


def input_obs(t):
    return positional_obs(t)


def canon_entry(m):
    return canon_axis_md([m])[0]


def obs_by_id(tab):
    """three readings of a table taken ONLY through its own by-ID lookups, on both axes:
    `cells` (get_value_by_ids), `rows` (data(id, 'observation')), `cols` (data(id, 'sample'));
    metadata by metadata(id, axis); index/exists must agree with the position in ids()"""
    oids = list(tab.ids(axis="observation"))
    sids = list(tab.ids())
    for ax, ids in (("observation", oids), ("sample", sids)):
        for k, i in enumerate(ids):
            if not tab.exists(i, axis=ax):
                raise LookupError("exists(%r, %s) is False" % (i, ax))
            if tab.index(i, ax) != k:
                raise LookupError("index(%r, %s) = %r, position %d" % (i, ax, tab.index(i, ax), k))
    omd = [tab.metadata(i, axis="observation") for i in oids]
    smd = [tab.metadata(i, axis="sample") for i in sids]
    base = {"obs": [str(i) for i in oids], "samp": [str(i) for i in sids],
            "omd": None if all(m is None for m in omd) else [canon_entry(m) for m in omd],
            "smd": None if all(m is None for m in smd) else [canon_entry(m) for m in smd],
            "type": tab.type}
    cells = [[core.frac(tab.get_value_by_ids(o, s_)) for s_ in sids] for o in oids]
    rows = [[core.frac(x) for x in tab.data(o, axis="observation", dense=True)] for o in oids]
    cols_t = [[core.frac(x) for x in tab.data(s_, axis="sample", dense=True)] for s_ in sids]
    cols = [[cols_t[j][k] for j in range(len(sids))] for k in range(len(oids))]
    return {"cells": dict(base, rows=cells), "rows": dict(base, rows=rows), "cols": dict(base, rows=cols)}


def positional_obs(tab):
    o = core.table_obs(tab)
    o["omd"] = canon_axis_md(tab.metadata(axis="observation"))
    o["smd"] = canon_axis_md(tab.metadata(axis="sample"))
    return {k: o[k] for k in ("obs", "samp", "rows", "omd", "smd", "type")}


def observe(tab, what, lookups):
    """the observation of a table that came out of the call: FIRST through its own by-ID lookups (before any
    other accessor touches it), then by position; `holds` is evaluated on the by-ID reading and Lean demands
    that all readings agree (clauses own_lookups.*)"""
    if len(tab.ids()) == 0 or len(tab.ids(axis="observation")) == 0:
        return positional_obs(tab)          # nothing can be addressed by ID
    if any(not isinstance(i, str) for i in list(tab.ids()) + list(tab.ids(axis="observation"))):
        return positional_obs(tab)          # a collapse label None became the ID None: not addressable by ID
    try:
        by = obs_by_id(tab)
    except Exception as e:
        lookups.append({"what": "%s:by-id-lookup-raised:%s" % (what, type(e).__name__),
                        "positional": positional_obs(tab), "by_id": BROKEN})
        return positional_obs(tab)
    pos = positional_obs(tab)
    for k in ("cells", "rows", "cols"):
        lookups.append({"what": "%s:%s" % (what, k), "positional": pos, "by_id": by[k]})
    return by["cells"]


BROKEN = {"obs": ["<by-ID lookup raised>"], "samp": [], "rows": [], "omd": None, "smd": None, "type": None}


@contextlib.contextmanager
def profile(name):
    import biom.err
    if name is None:
        yield
        return
    if name == "warnings-error":
        with warnings.catch_warnings():
            warnings.simplefilter("error")             # a caller's warnings filter must not change the outcome
            yield
        return
    with warnings.catch_warnings():
        warnings.simplefilter("ignore")
        with biom.err.errstate(empty=name):
            yield


def spell(b, k):
    """the same truth value in another spelling (flags are tested for truth, not identity)"""
    import numpy as np
    return ([True, 1, np.True_] if b else [False, 0, np.False_])[k % 3]


def run_real(t, axis, op, pyf, prof=None, variant=None):
    """run the real code; returns (outcome JSON, lookup pairs, live result tables).
    variant: {"spell": k} other spellings of the flags, {"positional": True} every optional argument bound by
    position, {"between": f} called while the partition generator is suspended between two parts"""
    import numpy as np
    lookups, live = [], []
    v = variant or {}
    k = v.get("spell")
    sp = (lambda b: spell(b, k)) if k is not None else (lambda b: b)
    try:
        with profile(prof):
            if op["op"] == "partition":
                parts = []
                if v.get("positional"):
                    gen = t.partition(pyf, axis, sp(op["remove_empty"]), sp(op["ignore_none"]))
                else:
                    gen = t.partition(pyf, axis=axis, remove_empty=sp(op["remove_empty"]),
                                      ignore_none=sp(op["ignore_none"]))
                for j, (lab, tab) in enumerate(gen):
                    live.append(tab)
                    parts.append({"label": label_json(lab), "table": observe(tab, "part%d" % j, lookups)})
                    if v.get("between"):
                        v["between"]()               # the generator is suspended: reads flip the source's layout
                return {"parts": parts}, lookups, live
            cf = (lambda tb, ax: tb.sum(ax)) if op.get("collapse_f") == "explicit_sum" else None
            mgs = op.get("min_group_size", 1)
            if k is not None and k % 2:
                mgs = np.int64(mgs)
            if op["op"] == "collapse":
                if v.get("positional"):
                    c = t.collapse(pyf, cf, sp(op["norm"]), mgs, sp(op["icm"]), sp(False), "add", "Path", sp(False), axis)
                else:
                    kw = {"collapse_f": cf} if cf is not None else {}
                    c = t.collapse(pyf, norm=sp(op["norm"]), min_group_size=mgs,
                                   include_collapsed_metadata=sp(op["icm"]), axis=axis, **kw)
            else:
                if v.get("positional"):
                    c = t.collapse(pyf, None, sp(False), 1, sp(op["icm"]), sp(True), op["mode"], op["md_key"],
                                   sp(op["strict"]), axis)
                else:
                    c = t.collapse(pyf, norm=sp(False), one_to_many=sp(True), one_to_many_mode=op["mode"],
                                   strict=sp(op["strict"]), include_collapsed_metadata=sp(op["icm"]),
                                   one_to_many_md_key=op["md_key"], axis=axis)
        live.append(c)
        o = observe(c, "result", lookups)
        shape = [int(c.matrix_data.shape[0]), int(c.matrix_data.shape[1])]
        return {"table": o, "shape": shape}, lookups, live
    except Exception as e:  # the error class is the observation
        return {"error": core.err_name(e)}, lookups, live


def has_empty_table(out):
    if "parts" in out:
        return any(not p["table"]["obs"] or not p["table"]["samp"] for p in out["parts"])
    if "table" in out:
        return not out["table"]["obs"] or not out["table"]["samp"]
    return False


def receiver_reading(t):
    """the receiver as its own by-ID lookups answer (falls back to None when they raise)"""
    if any(not isinstance(i, str) for i in list(t.ids()) + list(t.ids(axis="observation"))):
        return positional_obs(t)
    try:
        return obs_by_id(t)["cells"]
    except Exception as e:
        return {"by-id-lookup-raised": type(e).__name__}


INPLACE = ["transform", "update_ids", "update_ids_swap", "md_mutation"]


def inplace_change(rng, x, axis):
    """an in-place update that keeps the matrix / ID-array / metadata objects of `x` alive"""
    c = rng.choice(INPLACE)
    if c == "transform":
        x.transform(lambda v, i, m: v * 2.0, axis=axis, inplace=True)
    elif c == "update_ids":
        ids = list(x.ids(axis=axis))
        if any(not isinstance(i, str) for i in list(x.ids()) + list(x.ids(axis="observation"))):
            ids = []                                   # a collapsed table whose label was None: not renameable
            c = "update_ids-skipped"
        if ids:
            k = rng.randrange(len(ids))
            x.update_ids({ids[k]: str(ids[k]) + "_renamed_" + "y" * 30}, axis=axis, strict=False, inplace=True)
    elif c == "update_ids_swap":
        ids = [i for i in x.ids(axis=axis)]
        if len(ids) >= 2 and all(isinstance(i, str) for i in ids):
            rot = ids[1:] + ids[:1]                    # a rotation: every new ID is some other vector's old ID
            try:
                x.update_ids(dict(zip(ids, rot)), axis=axis, strict=True, inplace=True)
            except Exception:
                c = "update_ids_swap-refused"
        else:
            c = "update_ids_swap-skipped"
    else:
        md = x.metadata(axis=axis)
        if md is not None and len(md):
            md[rng.randrange(len(md))]["mutated"] = "zz"
    return c


def check(ctx, t, axis, op, pyf, tags, meta, nontrivial, rng=None, stress=True):
    prof = None
    alias = False
    if rng is not None and stress:
        done = core.poke_layout(t, rng) if rng.random() < 0.5 else []      # (i) layout left behind
        if done:
            ctx.count("stress:poked_layout")
        c = rng.random()
        if c < 0.10:
            prof = rng.choice(["warn", "call", "warnings-error"])           # (viii) non-default profile / filter
        elif c < 0.16:
            prof = "raise"
        alias = rng.random() < 0.12                                        # (vii)
    variant = {}
    if rng is not None and stress:
        if rng.random() < 0.3:
            variant["spell"] = rng.randrange(1, 6)         # 1 / 0 / np.True_ / np.False_ / np.int64 threshold
            ctx.count("stress:flags_in_other_spelling")
        if rng.random() < 0.25:
            variant["positional"] = True
            ctx.count("stress:optional_arguments_bound_by_position")
        if op["op"] == "partition" and rng.random() < 0.3:
            variant["between"] = lambda: core.poke_layout(t, rng, max_reads=1)
            ctx.count("stress:partition_generator_suspended_while_layout_flips")
    tin = input_obs(t)
    out, lookups, live = run_real(t, axis, op, pyf, None if prof == "raise" else prof, variant)
    case = dict(op, axis=axis, table=tin, out=out, lookups=lookups)
    ctx.case({"op": op, "axis": axis, "table": tin}, nontrivial=nontrivial)
    r = ctx.driver.ask(case)
    replayable = dict(op, axis=axis, table=tin, out=out, meta=dict(meta, profile=prof))
    ctx.count("op=%s" % op["op"])
    ctx.count("outcome=%s" % ("error:" + out["error"] if "error" in out else "ok"))
    kinds = set()
    for row in tin["rows"]:
        for x in row:
            if "/" in x:
                kinds.add("fraction")
                fx = core.unfrac(x)
                if -1 < fx < 1:
                    kinds.add("in(-1,1)")
                if fx < 0:
                    kinds.add("negative-fraction")
            elif len(x) > 12:
                kinds.add("large")
    if "error" not in out:
        mode = {"partition": "partition", "otm": "otm-" + str(op.get("mode")),
                "collapse": "collapse-norm=%s" % op.get("norm")}[op["op"]]
        for k in kinds or {"integers-only"}:
            ctx.count("values:%s:%s" % (mode, k))
        if op["op"] == "collapse" and not op["norm"] and op["min_group_size"] <= 1 and "fraction" in kinds:
            ctx.count("values:collapse.conserve evaluated on non-integer table")
        if op["op"] == "otm" and op["mode"] == "add" and "fraction" in kinds and out.get("table", {}).get(
                "samp" if axis == "sample" else "obs"):
            ctx.count("values:otm.cell (add) evaluated on non-integer table with >= 1 bin")
    if prof:
        ctx.count("stress:profile=%s" % prof)
    if not r["model_holds"]:
        ctx.diverge(replayable, "theorem model_holds contradicted by the driver", tags)
    if not r["holds"]:
        cl = r["clause"]
        if cl and cl.startswith("own_lookups."):
            cl = "own_lookups"
        ctx.fail(replayable, cl, tags, detail={"model": r["model"], "clause": r["clause"]})
    elif not r["agree"]:
        ctx.diverge(replayable, "outcome differs from the model", tags, detail={"model": r["model"]})
    # (viii) the receiver is unchanged and still answers through its own lookups -- always after a refusal
    if "error" in out or (rng is not None and rng.random() < 0.2):
        after = receiver_reading(t)
        if after != tin_by_id_form(tin):
            ctx.fail(replayable, "receiver.unchanged", tags, detail={"after": after})
        ctx.count("stress:receiver_reread")
    # (viii) empty='raise': the same outcome, or TableException exactly when an empty table would come out
    if prof == "raise":
        out2, lk2, _ = run_real(t, axis, op, pyf, "raise", variant)
        want = {"error": "TableException"} if has_empty_table(out) else out
        if out2 != want or any(l["by_id"] is BROKEN for l in lk2):
            ctx.fail(replayable, "profile.raise", tags, detail={"under_raise": out2, "default": out})
        if receiver_reading(t) != tin_by_id_form(tin):
            ctx.fail(replayable, "receiver.unchanged", tags)
    # (vii) no aliasing: an in-place update of one derived table leaves the source and the others alone
    if alias and live:
        before = [receiver_reading(x) if (len(x.ids()) and len(x.ids(axis="observation"))) else positional_obs(x)
                  for x in live]
        k = rng.randrange(len(live))
        what = inplace_change(rng, live[k], rng.choice(["sample", "observation"]))
        if receiver_reading(t) != tin_by_id_form(tin):
            ctx.fail(replayable, "aliasing.source_changed", tags, detail={"update": what})
        for j, x in enumerate(live):
            if j != k:
                now = receiver_reading(x) if (len(x.ids()) and len(x.ids(axis="observation"))) else positional_obs(x)
                if now != before[j]:
                    ctx.fail(replayable, "aliasing.other_part_changed", tags, detail={"update": what})
        ctx.count("stress:aliasing_probe=%s" % what)
    return r, out


def tin_by_id_form(tin):
    return tin


def axis_md(t, axis):
    md = t.metadata(axis=axis)
    return None if md is None else [dict(m) for m in md]


def do_partition(ctx, rng, t, axis, tags, meta, wide=False):
    ids = [str(i) for i in t.ids(axis=axis)]
    md = axis_md(t, axis)
    re_, ign = rng.random() < 0.35, rng.random() < 0.4
    if rng.random() < 0.25:
        pyf, fj = gen_dict_form(rng, ids, [str(i) for i in t.ids(axis="observation" if axis == "sample" else "sample")])
        lab_kind = fj["kind"]
        ctx.count("dict:%s,group_names=%s" % (fj["kind"], fj.get("naming")))
        if rng.random() < 0.5:
            reuse_dict(ctx, rng, t, axis, pyf, fj["kind"], ids)
    else:
        name, arg = gen_labeler(rng, ids, md, False)
        while wide and name in ("identity", "list_of_id", "mixed_list_tuple", "id_len"):
            name, arg = gen_labeler(rng, ids, md, False)
        f = labeler(name, arg, ids)
        labels = [f(i, (md[k] if md is not None else None)) for k, i in enumerate(ids)]
        fj = {"kind": "results", "labels": [label_json(v) for v in labels]}
        pyf = f
        lab_kind = name
        c = rng.random()
        if c < 0.15:
            pyf = reuse_lut(ctx, rng, t, axis, ids, labels)
        elif c < 0.22:
            pyf = reentrant(f, t, axis, rng)
            ctx.count("reuse:reentrant_labeller")
    op = {"op": "partition", "f": fj, "remove_empty": re_, "ignore_none": ign}
    r, out = check(ctx, t, axis, op, pyf, tags, dict(meta, labeler=lab_kind), nontrivial=len(ids) >= 2, rng=rng)
    ctx.count("labeler=%s" % lab_kind)
    ctx.count("partition:remove_empty=%s,ignore_none=%s" % (re_, ign))
    if ign and fj["kind"] == "results" and any(l is not None and l in ({"i": 0}, {"s": ""}, {"l": []}, {"t": []})
                                               for l in fj["labels"]):
        ctx.count("partition:falsy_label_with_ignore_none")
    if fj["kind"] != "results" and md is not None and pyf:
        mentioned = set(pyf) if fj["kind"] == "id2grp" else set(x for v in pyf.values() for x in v)
        if any(i not in mentioned for i in ids):
            ctx.count("partition:dict_leaves_ids_unmentioned_on_axis_with_metadata")
    if "parts" in out:
        ctx.count("parts=%d" % min(len(out["parts"]), 6))
        key = "smd" if axis == "sample" else "omd"
        if md is not None and any(p["table"][key] is None and p["table"]["samp" if axis == "sample" else "obs"]
                                  for p in out["parts"]):
            ctx.count("partition:part_of_only_metadata_free_ids_has_no_metadata")


def do_collapse(ctx, rng, t, axis, tags, meta, wide=False, mgs_override=None):
    ids = [str(i) for i in t.ids(axis=axis)]
    md = axis_md(t, axis)
    div_ok = meta.get("vclass", "int840") in DIVISIBLE
    norm = rng.random() < 0.5 and not wide and div_ok   # wide groups / add-only values: division not exact
    mgs = rng.choice([1, 1, 1, 2, 2, 3]) if not wide else rng.choice(
        [1, 2, 3, 33, 64, 200, len(ids) // 3 + 1, len(ids) // 2 + 1, len(ids) + 1])
    if mgs_override is not None:
        mgs = mgs_override
    icm = rng.random() < 0.75
    if rng.random() < 0.2:
        pyf, fj = gen_dict_form(rng, ids, [str(i) for i in t.ids(axis="observation" if axis == "sample" else "sample")])
        lab_kind = fj["kind"]
        ctx.count("dict:%s,group_names=%s" % (fj["kind"], fj.get("naming")))
        if rng.random() < 0.5:
            reuse_dict(ctx, rng, t, axis, pyf, fj["kind"], ids)
    else:
        name, arg = gen_labeler(rng, ids, md, True)
        while wide and name == "identity":
            name, arg = gen_labeler(rng, ids, md, True)
        f = labeler(name, arg, ids)
        labels = [f(i, (md[k] if md is not None else None)) for k, i in enumerate(ids)]
        fj = {"kind": "results", "labels": [label_json(v) for v in labels]}
        pyf = f
        lab_kind = name
        c = rng.random()
        if c < 0.15:
            pyf = reuse_lut(ctx, rng, t, axis, ids, labels)
        elif c < 0.22:
            pyf = reentrant(f, t, axis, rng)
            ctx.count("reuse:reentrant_labeller")
    op = {"op": "collapse", "f": fj, "norm": norm, "min_group_size": mgs, "icm": icm}
    if rng.random() < 0.15:
        op["collapse_f"] = "explicit_sum"           # (vi) the optional reducer, spelled out
        ctx.count("collapse:collapse_f_given")
    r, out = check(ctx, t, axis, op, pyf, tags, dict(meta, labeler=lab_kind), nontrivial=len(ids) >= 2, rng=rng)
    nt = len(t.ids(axis="observation")) != len(t.ids())
    if mgs >= 2 and nt:
        ctx.count("collapse:min_group_size>=2_on_non_square_axis=%s" % axis)
    ctx.count("labeler=%s" % lab_kind)
    ctx.count("collapse:norm=%s,min_group_size=%d" % (norm, mgs))
    if "table" in out:
        n_res = len(out["table"]["samp" if axis == "sample" else "obs"])
        ctx.count("collapse:groups_kept=%s" % ("0" if n_res == 0 else ("all-singletons" if n_res == len(ids) else "merged")))


def do_otm(ctx, rng, t, axis, tags, meta):
    ids = [str(i) for i in t.ids(axis=axis)]
    md = axis_md(t, axis)
    div_ok = meta.get("vclass", "int840") in DIVISIBLE
    mode = rng.choice(["add", "divide"]) if div_ok else "add"
    strict = rng.random() < 0.25
    icm = rng.random() < 0.8
    key = rng.choice(["Path", "KEGG_Pathways"])
    scripts = None
    if md is not None and md and all("paths" in m for m in md) and rng.random() < 0.6:
        kind = "md_paths"
    else:
        kind = "scripted"
        scripts = gen_scripts(rng, ids)
    level = 1
    pyf = otm_generator(kind, level, scripts)
    if kind == "scripted" and len(ids) >= 2 and rng.random() < 0.35:
        # the same generator function / script table was used on this table with other content
        target = dict(scripts)
        for _ in range(rng.randint(1, 2)):
            k = rng.randrange(1, len(ids))
            rot = ids[k:] + ids[:k]
            set_in_place(scripts, {i: list(target[j]) for i, j in zip(ids, rot)})
            warm_calls(rng, t, axis, pyf, otm=True)
        set_in_place(scripts, target)
        ctx.count("reuse:same_generator_object_with_changed_state")
    events = otm_events(kind, level, scripts, ids, md)
    op = {"op": "otm", "events": events, "mode": mode, "strict": strict, "icm": icm, "md_key": key}
    m2 = dict(meta, gen=kind, scripts={k: v for k, v in (scripts or {}).items()})
    r, out = check(ctx, t, axis, op, pyf, tags, m2, nontrivial=any(e for e in events), rng=rng)
    ctx.count("otm:gen=%s,mode=%s,strict=%s" % (kind, mode, strict))
    counts = [len([x for x in e if x is not None]) for e in events]
    ctx.count("otm:max_groups_per_vector=%d" % min(max(counts or [0]), 4))
    if any(len(set(x[1] for x in e if x is not None)) < len([x for x in e if x is not None]) for e in events):
        ctx.count("otm:duplicate_group_listed")
    if md is None:
        ctx.count("otm:axis_without_metadata")


# ----------------------------------------------------------------------------- fixed corpus
def corpus(ctx):
    import numpy as np
    from biom import Table
    # repaired defect df2f8810: min_group_size larger than every group -> result must keep the other
    # axis and be coherent: shape (N, 0) / (0, M)
    t = Table(np.array([[1, 2, 0], [3, 4., 0]]), ["o1", "o2"], ["s1", "s2", "s3"], None,
              [{"g": "a"}, {"g": "b"}, {"g": "c"}])
    for axis in ("sample", "observation"):
        ids = [str(i) for i in t.ids(axis=axis)]
        for norm in (False, True):
            for icm in (True, False):
                op = {"op": "collapse", "f": {"kind": "results", "labels": [label_json(i) for i in ids]},
                      "norm": norm, "min_group_size": 2, "icm": icm}
                r, out = check(ctx, t, axis, op, lambda i, m: i, ("corpus", "fixed-df2f8810"),
                               {"corpus": "df2f8810"}, nontrivial=True)
                want = [2, 0] if axis == "sample" else [0, 3]
                if out.get("shape") != want:
                    ctx.fail(dict(op, axis=axis, table=input_obs(t), out=out, meta={"corpus": "df2f8810"}),
                             "collapse.shape", ("corpus", "fixed-df2f8810"))
        ctx.count("corpus:df2f8810")
    # the docstring examples of partition and collapse
    t = Table(np.array([[0, 0, 1], [1, 3, 42]]), ["O1", "O2"], ["S1", "S2", "S3"],
              [{"full_genome_available": True}, {"full_genome_available": False}],
              [{"sample_type": "a"}, {"sample_type": "a"}, {"sample_type": "b"}])
    op = {"op": "partition", "f": {"kind": "results", "labels": [{"s": "a"}, {"s": "a"}, {"s": "b"}]},
          "remove_empty": False, "ignore_none": False}
    check(ctx, t, "sample", op, lambda i, m: m["sample_type"], ("corpus",), {"corpus": "doc-partition"}, True)
    t = Table(np.array([[5, 6, 7], [8, 9, 10], [11, 12, 13]]), ["1", "2", "3"], ["a", "b", "c"],
              [{"taxonomy": ["k__a", "p__b"]}, {"taxonomy": ["k__a", "p__c"]}, {"taxonomy": ["k__a", "p__c"]}],
              [{"barcode": "aatt"}, {"barcode": "ttgg"}, {"barcode": "aatt"}])
    op = {"op": "collapse", "f": {"kind": "results", "labels": [{"s": "p__b"}, {"s": "p__c"}, {"s": "p__c"}]},
          "norm": False, "min_group_size": 1, "icm": True}
    check(ctx, t, "observation", op, lambda i, m: m["taxonomy"][1], ("corpus",), {"corpus": "doc-collapse"}, True)
    ctx.count("corpus:docstrings", 2)


def corpus_thresholds(ctx):
    """min_group_size against group sizes on NON-square tables, both axes (the threshold is about the members
    of the group on the collapsed axis, not about the other axis' length)"""
    import numpy as np
    from biom import Table
    for n, m in ((2, 5), (5, 2), (3, 4)):
        arr = np.array([[840.0 * ((i * m + j) % 4) for j in range(m)] for i in range(n)])
        t = Table(arr, ["o%d" % i for i in range(n)], ["s%d" % j for j in range(m)],
                  [{"k": "v%d" % i} for i in range(n)], [{"k": "w%d" % j} for j in range(m)])
        for axis in ("sample", "observation"):
            ids = [str(i) for i in t.ids(axis=axis)]
            for modk in (1, 2):
                labels = ["g%d" % (k % modk) for k in range(len(ids))]
                lut = dict(zip(ids, labels))
                for mgs in (2, 3, 4, 5, 6):
                    op = {"op": "collapse", "f": {"kind": "results", "labels": [label_json(l) for l in labels]},
                          "norm": mgs % 2 == 0 and len(ids) % 3 != 0, "min_group_size": mgs, "icm": True}
                    if op["norm"] and any(c not in (1, 2, 4) for c in
                                          [labels.count(g) for g in set(labels)]):
                        op["norm"] = False
                    check(ctx, t, axis, op, lambda i, md, lut=lut: lut[i], ("corpus", "thresholds"),
                          {"corpus": "thresholds"}, True)
    ctx.count("corpus:thresholds_non_square")


def early_unusual_calls():
    """(v) process-level state: unusual optional arguments early in the run must not colour later default calls"""
    import numpy as np
    from biom import Table
    t = Table(np.array([[1., 2, 0], [3, 4, 5]]), ["a", "b"], ["x", "y", "z"],
              [{"p": [["A", "K"]]}, {"p": [["A"]]}], [{"g": "1"}, {"g": "1"}, {"g": "2"}])
    t.collapse(lambda i, m: m["g"], collapse_f=lambda tb, ax: np.asarray(tb.max(ax), dtype=float), norm=True,
               min_group_size=2, include_collapsed_metadata=False)
    t.collapse(lambda i, m: ((p, p[-1]) for p in m["p"]), norm=False, one_to_many=True,
               one_to_many_mode="divide", one_to_many_md_key="Odd key", axis="observation")
    try:
        t.collapse(lambda i, m: ((p, p[1]) for p in m["p"]), norm=False, one_to_many=True, strict=True,
                   axis="observation")
    except IndexError:
        pass
    list(t.partition({"q": ("x", "z"), "r": ["y"]}, remove_empty=True, ignore_none=True))
    list(t.partition({"a": "q"}, axis="observation"))


def error_paths(ctx):
    """(vi)/(viii) refusals outside the model's vocabulary: right exception class, receiver unchanged and coherent"""
    import numpy as np
    from biom import Table
    from biom.exception import UnknownAxisError
    t = Table(np.array([[840., 0, 1680], [0, 840, 0]]), ["a", "b"], ["x", "y", "z"],
              [{"g": "1"}, {"g": "2"}], [{"g": "1"}, {"g": "1"}, {"g": "2"}])
    before = receiver_reading(t)
    f = lambda i, m: m["g"]
    it = lambda i, m: iter([("p", "b")])
    cases = [
        ("bad_mode", ValueError, lambda: t.collapse(it, norm=False, one_to_many=True, one_to_many_mode="bogus")),
        ("bad_mode_one_to_one", ValueError, lambda: t.collapse(f, norm=False, one_to_many_mode="Add")),
        ("collapse_bad_axis", UnknownAxisError, lambda: t.collapse(f, axis="samples")),
        ("partition_bad_axis", UnknownAxisError, lambda: list(t.partition(f, axis="obs"))),
        ("norm_with_one_to_many", AttributeError, lambda: t.collapse(it, one_to_many=True)),
        ("dict_of_ints", ValueError, lambda: list(t.partition({"x": 1}))),
        ("empty_dict", IndexError, lambda: list(t.partition({}))),
    ]
    for name, exc, call in cases:
        got = None
        try:
            call()
        except Exception as e:
            got = e
        ctx.case({"error_path": name}, nontrivial=True)
        case = {"error_path": name, "got": type(got).__name__ if got is not None else None}
        if not isinstance(got, exc):
            ctx.fail(case, "error_path." + name, ("error-path",))
        if receiver_reading(t) != before:
            ctx.fail(case, "receiver.unchanged", ("error-path",))
        ctx.count("error_path:%s" % name)


def wide_cases(ctx, rng, n, n_huge=0):
    """(iv) size thresholds: >= 64 IDs (a few: > 512) on the axis worked on (and on the other one), IDs given
    in non-axis order"""
    for k in range(n + n_huge):
        axis = rng.choice(["sample", "observation"])
        wide_axis = axis if k % 3 else ("observation" if axis == "sample" else "sample")
        if k >= n:
            wide_axis = axis
            spec = core.wide_spec(rng, n_axis=rng.choice([513, 600, 1030]), other=2, axis=wide_axis, md=False)
            ctx.count("wide:more_than_512_ids")
        else:
            spec = core.wide_spec(rng, axis=wide_axis, md=False)
        cls = rng.choice(DIVISIBLE + ADD_ONLY)
        spec["rows"] = [[(gen_val(rng, cls) if v else 0.0) for v in r] for r in spec["rows"]]
        spec["vclass"] = cls
        spec["omd"] = gen_axis_md(rng, spec["obs"], "partial")
        spec["smd"] = gen_axis_md(rng, spec["samp"], "partial")
        route = rng.choice(core.ROUTES)
        t = core.build(spec, route, rng)
        meta = {"spec": "wide", "route": route, "history": "none", "vclass": cls}
        tags = ("wide", "route=" + route)
        ctx.count("wide:axis_worked_on_is_wide=%s" % (axis == wide_axis))
        c = k % 3
        if k >= n:
            # a table above 512 IDs gets every operation (the threshold twice: around and above the group sizes)
            do_partition(ctx, rng, t, axis, tags, meta, wide=True)
            do_collapse(ctx, rng, t, axis, tags, meta, wide=True)
            do_collapse(ctx, rng, t, axis, tags, meta, wide=True,
                        mgs_override=len(t.ids(axis=axis)) // 2 + 1)
            do_otm(ctx, rng, t, axis, tags, meta)
        elif c == 0:
            do_partition(ctx, rng, t, axis, tags, meta, wide=True)
        elif c == 1:
            do_collapse(ctx, rng, t, axis, tags, meta, wide=True)
        else:
            do_otm(ctx, rng, t, axis, tags, meta)


# ----------------------------------------------------------------------------- driver
def one_random(ctx, rng, max_n, max_m):
    spec = gen_spec(rng, max_n, max_m)
    route = rng.choice(core.ROUTES)
    axis = rng.choice(["sample", "observation"])
    hist = rng.choice(HISTORIES)
    t0 = core.build(spec, route, rng)
    try:
        t = apply_history(rng, t0, hist, axis)
    except Exception:
        t, hist = t0, "none"
    if len(t.ids()) == 0 or len(t.ids(axis="observation")) == 0:
        t, hist = t0, "none"                      # domain: both axes non-empty
    meta = {"spec": spec, "route": route, "history": hist, "vclass": spec["vclass"]}
    tags = ("random", "route=" + route, "history=" + hist, "values=" + spec["vclass"])
    ctx.count("values=%s" % spec["vclass"])
    ctx.count("route=%s" % route)
    ctx.count("history=%s" % hist)
    ctx.count("axis=%s" % axis)
    c = rng.random()
    if spec["vclass"] == "arbitrary":
        c = 0.0                                   # arbitrary doubles only where values are carried, not added
    if c < 0.36:
        do_partition(ctx, rng, t, axis, tags, meta)
    elif c < 0.70:
        do_collapse(ctx, rng, t, axis, tags, meta)
    else:
        do_otm(ctx, rng, t, axis, tags, meta)


def run(ctx):
    ctx.rule = ("receiver = generated spec (1..N x 1..M; one value class per table: 840-multiples that are whole, "
                "non-integer 840*k/2^j incl. (0,1), large, or - for the adding modes - small ints, dyadic fractions "
                "0.5/1.5/0.125.., 2^40-scale; negatives; zeros; metadata kinds) built through a "
                "core.build route, optionally after a prior operation; operation drawn from partition / one-to-one "
                "collapse / one-to-many collapse with random flags and a labeller from the named family (or a dict "
                "in either form, or a scripted iterator); distinct = distinct (operation, axis, receiver content); "
                "non-trivial = at least two IDs on the axis (one-to-many: at least one vector with a group). "
                "Stress: random layout left by reads, warm-then-in-place histories, awkward ID text, wide tables, "
                "error profiles, aliasing probes; every result table is read through its own by-ID lookups first")
    ctx.trusted = ["profile=raise / receiver-unchanged / aliasing / error-path expectations are evaluated in Python",
                   "labeller results per ID are computed by the harness from (id, metadata) and handed to Lean; "
                   "the labeller is assumed deterministic (one-to-many calls it twice per ID)",
                   "every value class is exact in binary64 under the operations it is used with: classes divisible by "
                   "840/2^j for norm/divide (any count <= 8), pure dyadic / small-int / large classes only with adding modes"]
    ctx.assumptions = ["start tables have at least one observation and one sample (C11 domain)",
                       "labels of a collapse are strings / None (they become IDs)"]
    early_unusual_calls()
    corpus(ctx)
    corpus_thresholds(ctx)
    error_paths(ctx)
    rng = ctx.rng
    if ctx.quick():
        n, max_n, max_m, n_wide, n_huge = 2400, 6, 6, 12, 3
    else:
        # thorough runs are sharded over worker processes by ./check: each worker takes its share
        nw = max(1, getattr(ctx, "worker", (0, 1))[1])
        n, max_n, max_m, n_wide, n_huge = 56000 // nw, 8, 8, 320 // nw, max(2, 24 // nw)
    wide_cases(ctx, rng, n_wide, n_huge)
    for _ in range(n):
        one_random(ctx, rng, max_n, max_m)


def replay(ctx, rec):
    """re-run a recorded case on the current tree: the receiver is rebuilt from its observation"""
    import numpy as np
    from biom import Table
    case = rec["case"]
    tin = case["table"]
    from fractions import Fraction

    def unmd(md):
        if md is None:
            return None
        def val(k, v):
            if k == "collapsed_ids":
                try:
                    x = json.loads(v)
                    if isinstance(x, list):
                        return x
                except Exception:
                    pass
                return v.split(SEP)
            return json.loads(v)
        return [{k: val(k, v) for k, v in e.items()} for e in md]
    arr = np.array([[float(Fraction(x)) for x in r] for r in tin["rows"]], dtype=float).reshape(
        len(tin["obs"]), len(tin["samp"]))
    t = Table(arr, tin["obs"], tin["samp"], unmd(tin["omd"]), unmd(tin["smd"]), type=tin["type"])
    axis = case["axis"]
    ids = [str(i) for i in t.ids(axis=axis)]
    op = {k: v for k, v in case.items() if k not in ("axis", "table", "out", "meta")}
    if op["op"] == "otm":
        scripts = {}
        for id_, ev in zip(ids, op["events"]):
            scripts[id_] = [None if e is None else (json.loads(e[0]), e[1]) for e in ev]
        pyf = otm_generator("scripted", 1, scripts)
    else:
        fj = op["f"]
        if fj["kind"] == "results":
            def unlabel(j):
                if j is None:
                    return None
                if "s" in j:
                    return j["s"]
                if "i" in j:
                    return j["i"]
                if "t" in j:
                    return tuple(j["t"])
                return list(j["l"])
            table_ = {i: unlabel(l) for i, l in zip(ids, fj["labels"])}
            pyf = lambda i, m: table_[i]
        elif fj["kind"] == "id2grp":
            pyf = {k: v for k, v in fj["map"]}
        else:
            pyf = {k: list(v) for k, v in fj["map"]}
    check(ctx, t, axis, op, pyf, ("replay",), {"replay": True}, True)
    # the stress options of the original run (layout, profile, aliasing probe) were drawn at random: try several
    import random
    for k in range(12):
        if op["op"] == "otm":
            pyf = otm_generator("scripted", 1, {i: list(v) for i, v in scripts.items()})
        check(ctx, t, axis, op, pyf, ("replay", "stress"), {"replay": True}, True, rng=random.Random(k))
