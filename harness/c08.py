"""C08 — filtering keeps exactly the selected IDs, intact and in order.

Kernel level: `_filter` of both kernel implementations (compiled binary, rendering of the current
.pyx) is called directly on flat compressed arrays drawn from every well-formed layout family and
the output arrays are compared EXACTLY with the Lean model `filterKernel` / `removeRows`.
Table level (under both kernel implementations): `Table.filter` with ID collections in every
container form and with named predicates whose calls are logged, `remove_empty`, `head`; Lean
evaluates `holds` on what the real code did and compares with the model's observation.
"""
import itertools
import json
import os
from fractions import Fraction

from . import core, kernels

FORMS = ["list", "set", "tuple", "array", "pred"]
AX = {"observation": 0, "sample": 1}


# ----------------------------------------------------------------------------- receivers
def make_receiver(recipe):
    """recipe = {"spec":…, "route":…, "hist":[…]} -> biom Table (deterministic)"""
    import numpy as np
    from biom import Table
    spec = recipe["spec"]
    route = recipe.get("route", "dense")
    if route == "perm_sort":
        # build with both axes reversed, then sort back: leaves unsorted sparse indices behind
        arr = np.array(spec["rows"], dtype=float).reshape(len(spec["obs"]), len(spec["samp"]))
        import copy
        omd = copy.deepcopy(spec.get("omd"))
        smd = copy.deepcopy(spec.get("smd"))
        t = Table(arr[::-1, ::-1].copy(), spec["obs"][::-1], spec["samp"][::-1],
                  None if omd is None else omd[::-1], None if smd is None else smd[::-1], type=spec.get("type"))
        if len(spec["obs"]) and len(spec["samp"]):
            t = t.sort_order(spec["samp"]).sort_order(spec["obs"], axis="observation")
            t.type = spec.get("type")
    else:
        t = core.build(spec, route)
    for h in recipe.get("hist", []):
        t = apply_hist(t, h)
    if recipe.get("poke") is not None:
        import random
        core.poke_layout(t, random.Random(recipe["poke"]))
    return t


def apply_hist(t, h):
    """one history step on a live table; returns the table that carries on"""
    if True:
        op = h[0]
        if op == "sort":
            ty = t.type
            t = t.sort_order(h[2], axis=h[1])
            t.type = ty
        elif op == "transpose":
            t = t.transpose()
        elif op == "align":
            other = t.sort_order(h[1], axis="observation").sort_order(h[2])
            t = t.align_to(other, axis="both")
        elif op == "concat":
            # split the samples in two blocks (second block first in storage), concatenate them back
            ids = list(t.ids())
            k = h[1]
            a = t.filter(ids[:k], inplace=False)
            b = t.filter(ids[k:], inplace=False)
            t = b.concat([a], axis="sample")
        elif op == "prefilter":
            t.filter(h[2], axis=h[1], inplace=True)
        elif op == "prefilter_copy":
            t = t.filter(h[2], axis=h[1], inplace=False)
        elif op == "prefilter_pred":
            # a predicate nothing (h[3]=False) / everything (True) passes, in place (h[2]) or copying
            verdict = bool(h[3])
            r = t.filter(lambda v, i, m: verdict, axis=h[1], inplace=bool(h[2]))
            t = t if h[2] else r
        elif op == "remove_empty":
            r = t.remove_empty(axis=h[1], inplace=bool(h[2]))
            t = t if h[2] else r
        elif op == "read":
            # read/export through every accessor that might remember something about the current objects
            ax = h[1]
            t.filter(lambda v, i, m: True, axis=ax, inplace=False)
            if 0 not in t.shape:
                for i in t.ids(axis=ax):
                    t.data(i, axis=ax)
            list(t.iter(axis=ax))
            t.metadata(axis=ax)
            str(t)
        elif op == "transform":
            ax, kind = h[1], h[2]
            first = t.ids(axis=ax)[0] if len(t.ids(axis=ax)) else None
            if kind == "double":
                t.transform(lambda v, i, m: v * 2, axis=ax, inplace=True)
            else:
                t.transform(lambda v, i, m: v * 0 if i == first else v, axis=ax, inplace=True)
        elif op == "update_ids":
            t.update_ids(dict(h[2]), axis=h[1], strict=False, inplace=True)
        elif op == "md_mutate":
            md = t.metadata(axis=h[1])
            if md is not None and len(md) > h[2]:
                md[h[2]][h[3]] = h[4]
        elif op == "del_md":
            t.del_metadata(keys=h[2], axis=h[1])
        elif op == "add_md":
            # annotate only SOME of the IDs of an axis
            t.add_metadata({k: dict(v) for k, v in h[2]}, axis=h[1])
        else:
            raise ValueError(op)
    return t


def make_family(recipe):
    """the receiver and the other LIVE tables derived from the same source (recipe["family"] = {"kinds": […],
    "target": k}); without a family: just the receiver"""
    from biom import Table
    fam = recipe.get("family")
    src = make_receiver(recipe)
    if not fam:
        return src, []
    members = []
    for kind in fam["kinds"]:
        if kind == "self":
            d = src
        elif kind == "copy":
            d = src.copy()
        elif kind == "filter_all":
            d = src.filter(list(src.ids()), inplace=False)
        elif kind == "filter_pred":
            d = src.filter(lambda v, i, m: True, axis="observation", inplace=False)
        elif kind == "sort":
            d = src.sort_order(list(src.ids())[::-1])
        elif kind == "transpose":
            d = src.transpose()
        elif kind == "ctor":
            d = Table(src.matrix_data, src.ids(axis="observation"), src.ids(), src.metadata(axis="observation"),
                      src.metadata(), type=src.type)
        else:
            raise ValueError(kind)
        members.append(d)
    if "self" not in fam["kinds"]:
        members.append(src)
    target = members[fam["target"]]
    others = [m for m in members if m is not target]
    for h in fam.get("target_hist", []):
        # in-place steps on the target AFTER the derivation (e.g. update_ids swapping names): the others still hold
        # whatever they shared with it
        target = apply_hist(target, h)
    return target, others


def layout_of(t, axis):
    """flat arrays of the matrix compressed along `axis` — what tocsr()/tocsc() hands on"""
    m = t._data.tocsr() if axis == "observation" else t._data.tocsc()
    n_major = m.shape[0] if axis == "observation" else m.shape[1]
    n_minor = m.shape[1] if axis == "observation" else m.shape[0]
    return {"nMajor": int(n_major), "nMinor": int(n_minor), "indptr": [int(x) for x in m.indptr],
            "indices": [int(x) for x in m.indices], "data": [core.frac(x) for x in m.data]}


# ----------------------------------------------------------------------------- predicates (Python twins)
def wsum(v):
    return sum((j + 1) * Fraction(float(x)) for j, x in enumerate(v))


_PRED_CACHE = {}


def shared_pred(desc):
    """ONE function object per predicate description for the whole process (its log is emptied in place): a result
    remembered per function object would be served to the next table"""
    key = json.dumps(desc, sort_keys=True)
    if key not in _PRED_CACHE:
        log = []
        _PRED_CACHE[key] = (make_pred(desc, log), log)
    fn, log = _PRED_CACHE[key]
    del log[:]
    return fn, log


def make_pred(desc, log):
    name = desc["name"]
    k = Fraction(desc.get("k", "0"))
    idset = set(desc.get("ids", []))
    key, val = desc.get("key", ""), desc.get("val", "")

    def base(v, id_, md):
        if name == "true":
            return True
        if name == "false":
            return False
        if name == "sum_gt":
            return sum(Fraction(float(x)) for x in v) > k
        if name == "wsum_gt":
            return wsum(v) > k
        if name == "first_nz":
            return len(v) > 0 and v[0] != 0
        if name == "last_pos":
            return len(v) > 0 and v[-1] > 0
        if name == "nnz_ge":
            return sum(1 for x in v if x != 0) >= k
        if name == "id_in":
            return str(id_) in idset
        if name == "md_eq":
            return md is not None and core.canon_md_entry(md).get(key) == val
        if name == "md_idx":
            # the documented way: md[key] on a defaultdict(lambda: None) — an entry lacking the key STORES key: None
            return md is not None and json.dumps(core.canon_value(md[key]), sort_keys=True, ensure_ascii=False) == val
        if name == "mix":
            return (str(id_) in idset) != (wsum(v) > k)
        raise ValueError(name)

    def pred(v, id_, md):
        ret = bool(base(v, id_, md))
        log.append({"vec": [core.frac(x) for x in v], "id": str(id_),
                    "md": None if md is None else core.canon_md_entry(md), "ret": ret})
        return ret
    return pred


def container(form, ids, rng=None):
    import numpy as np
    ids = list(ids)
    if rng is not None and len(ids) > 1:
        ids = ids[:]
        rng.shuffle(ids)
        if rng.random() < 0.3:
            ids = ids + [ids[0]]          # a repeated ID is still one ID
    if form == "list":
        return ids
    if form == "set":
        return set(ids)
    if form == "tuple":
        return tuple(ids)
    if form == "array":
        return np.array(ids, dtype=object) if ids else np.array([], dtype=object)
    if form == "strarray":
        return np.array(ids) if ids else np.array([], dtype="U1")
    if form == "dictkeys":
        return {i: 1 for i in ids}.keys()
    if form == "frozenset":
        return frozenset(ids)
    raise ValueError(form)


def result_obs(fn):
    return observe(fn)[0]


def observe(fn):
    """(observation, the returned table or None)"""
    try:
        r = fn()
        return {"ok": core.table_obs(r)}, r
    except Exception as e:  # the class is what is observed
        return {"error": core.err_name(e)}, None


def lookups(tb, before, deep):
    """what the table answers through its OWN by-ID lookups: index(id) of every ID it lists, data(id) of every
    ID (deep), and the IDs of `before` it no longer lists but still reports as existing"""
    out = {"stale": []}
    if 0 in tb.shape:
        deep = False        # the library refuses data(id) on a table with an empty axis
    for ax, key in (("observation", "obs"), ("sample", "samp")):
        ids = list(tb.ids(axis=ax))
        idx, data = [], []
        for i in ids:
            try:
                idx.append(int(tb.index(i, ax)))
            except Exception:
                idx.append(None)
            if deep:
                try:
                    data.append([core.frac(x) for x in tb.data(i, axis=ax, dense=True)])
                except Exception:
                    data.append(None)
        out[key + "_index"] = idx
        out[key + "_data"] = data if deep else None
        now = set(str(i) for i in ids)
        for i in before[key]:
            if i not in now:
                try:
                    if tb.exists(i, axis=ax):
                        out["stale"].append(i)
                except Exception:
                    out["stale"].append(i)
    return out


def add_lookups(obs, before, result_table, receiver_table, deep):
    if result_table is not None:
        obs["result_lk"] = lookups(result_table, before, deep)
    obs["after_lk"] = lookups(receiver_table, before, deep)
    return obs


# ----------------------------------------------------------------------------- one table-level request
_CACHE = {}


def receiver(recipe, axis, reuse):
    """(table, its observation, its layout along `axis`).  Requests that must not modify the receiver
    (inplace=False) share one receiver per recipe: every such request re-reads the receiver afterwards and
    `holds` demands it unchanged, so a modification is reported where it happens."""
    if not reuse:
        t = make_receiver(recipe)
        return t, core.table_obs(t), layout_of(t, axis)
    key = json.dumps(recipe, sort_keys=True)
    ent = _CACHE.get(key)
    if ent is None:
        if len(_CACHE) > 32:
            _CACHE.clear()
        t = make_receiver(recipe)
        ent = _CACHE[key] = {"t": t, "before": core.table_obs(t)}
    if axis not in ent:
        ent[axis] = layout_of(ent["t"], axis)
    return ent["t"], ent["before"], ent[axis]


def flag(value, style):
    """the same truth value spelled as the caller might: bool, int, numpy bool"""
    import numpy as np
    if style == "int":
        return int(value)
    if style == "np":
        return np.bool_(value)
    return value


def run_filter(recipe, axis, keep, form, invert, inplace, mods, rng=None, deep=False, opts=None):
    """returns the driver request for one real Table.filter call.  opts: profile (error profile in force during the
    call), style (spelling of the flags), shared (re-use one predicate function object), positional"""
    import warnings
    import biom.err as E
    opts = opts or {}
    bystanders = []
    if recipe.get("family"):
        t, others = make_family(recipe)
        before, layout = core.table_obs(t), layout_of(t, axis)
        bystanders = [{"t": o, "before": core.table_obs(o)} for o in others]
    else:
        t, before, layout = receiver(recipe, axis, reuse=not inplace)
    twin = t.copy() if keep["kind"] == "pred" else None
    log = []
    if keep["kind"] == "ids":
        arg = container(form, keep["ids"], rng)
    elif keep["kind"] == "pred":
        if opts.get("shared"):
            arg, log = shared_pred(keep)
        else:
            arg = make_pred(keep, log)
    else:
        arg = {"int": 5, "none": None, "callable-object": _Callable()}[keep.get("what", "int")]
    arg_before = None
    if keep["kind"] == "ids" and form in ("list", "tuple", "array", "strarray"):
        arg_before = [str(x) for x in arg]
    pstyle = opts.get("predstyle") if keep["kind"] == "pred" else None
    if pstyle == "decorated":
        import functools
        inner = arg

        def deco(f):
            @functools.wraps(f)
            def wrapper(*a, **kw):
                return f(*a, **kw)
            return wrapper
        arg = deco(deco(inner))
    elif pstyle == "reentrant":
        # the predicate itself filters other tables (and a copy of the receiver) while the outer filter runs
        inner, side = arg, t.copy()

        def arg(v, i, m):
            side.filter(lambda vv, ii, mm: bool(vv.sum() >= 0), axis=axis, inplace=False)
            side.filter([i], axis=axis, inplace=False)
            if 0 not in side.shape:
                side.head(1, 1)
            return inner(v, i, m)
    inv, inp = flag(invert, opts.get("style")), flag(inplace, opts.get("style"))
    if opts.get("positional"):
        call = lambda: t.filter(arg, axis, inv, inp)
    else:
        call = lambda: t.filter(arg, axis=axis, invert=inv, inplace=inp)
    profile = opts.get("profile")
    with kernels.use_kernels(mods):
        if profile:
            with warnings.catch_warnings():
                warnings.simplefilter("ignore")
                with E.errstate(empty=profile):
                    res, rt = observe(call)
        elif opts.get("warnings") == "error":
            # a caller that turns warnings into errors: the operation must not depend on emitting one
            with warnings.catch_warnings():
                warnings.simplefilter("error")
                res, rt = observe(call)
        else:
            res, rt = observe(call)
        after = core.table_obs(t)
        via = None
        if keep["kind"] == "pred":
            log_copy = list(log)
            accepted = [c["id"] for c in log_copy if c["ret"]]
            if keep.get("effect_key") and twin.metadata(axis=axis) is not None:
                for m in twin.metadata(axis=axis):
                    m[keep["effect_key"]]          # the table as the user's predicate leaves it
            via = result_obs(lambda: twin.filter(accepted, axis=axis, invert=invert, inplace=False))
            log = log_copy
        obs = add_lookups({"result": res, "after": after, "calls": log, "via_ids": via}, before, rt, t, deep)
        if bystanders:
            obs["bystanders"] = [{"before": b["before"], "after": core.table_obs(b["t"]),
                                  "lk": lookups(b["t"], b["before"], True)} for b in bystanders]
        if arg_before is not None:
            obs["arg_before"], obs["arg_after"] = arg_before, [str(x) for x in arg]
    return {"op": "filter", "t": before, "layout": layout, "axis": axis, "keep": keep, "invert": invert,
            "inplace": inplace, "empty_profile": profile, "obs": obs}


class _Callable:
    def __call__(self, v, i, m):
        return True


def run_remove_empty(recipe, axis, inplace, mods, deep=True, opts=None):
    import warnings
    import biom.err as E
    opts = opts or {}
    t = make_receiver(recipe)
    before = core.table_obs(t)
    profile = opts.get("profile")          # 'warn' / 'call': the operation must go through unchanged
    with kernels.use_kernels(mods):
        if profile:
            with warnings.catch_warnings():
                warnings.simplefilter("ignore")
                with E.errstate(empty=profile):
                    res, rt = observe(lambda: t.remove_empty(axis=axis, inplace=flag(inplace, opts.get("style"))))
        elif opts.get("positional"):
            res, rt = observe(lambda: t.remove_empty(axis, inplace))
        else:
            res, rt = observe(lambda: t.remove_empty(axis=axis, inplace=flag(inplace, opts.get("style"))))
        after = core.table_obs(t)
        obs = add_lookups({"result": res, "after": after}, before, rt, t, deep)
    return {"op": "remove_empty", "t": before, "axis": axis, "inplace": inplace, "obs": obs}


def run_head(recipe, n, m, mods, deep=True, opts=None):
    """opts.style: how the sizes are passed — positional, keywords, defaults (n and/or m left out = 5)"""
    opts = opts or {}
    t = make_receiver(recipe)
    before = core.table_obs(t)
    style = opts.get("style")
    call = {None: lambda: t.head(n, m), "kw": lambda: t.head(m=m, n=n), "default": lambda: t.head(),
            "n_only": lambda: t.head(n), "m_only": lambda: t.head(m=m)}[style]
    if style in ("default", "m_only"):
        n = 5
    if style in ("default", "n_only"):
        m = 5
    with kernels.use_kernels(mods):
        res, rt = observe(call)
        after = core.table_obs(t)
        obs = add_lookups({"result": res, "after": after}, before, rt, t, deep)
    return {"op": "head", "t": before, "n": n, "m": m, "obs": obs}


def run_refused(recipe, what, mods):
    """a request the library must refuse whatever the table: unknown axis names"""
    t = make_receiver(recipe)
    before = core.table_obs(t)
    ids = list(t.ids())
    call, expect = {
        "filter-bogus-axis": (lambda: t.filter(ids[:1], axis="bogus"), "UnknownAxis"),
        "filter-pred-bogus-axis": (lambda: t.filter(lambda v, i, m: True, axis="samples", inplace=True), "UnknownAxis"),
        "remove-empty-bogus-axis": (lambda: t.remove_empty(axis="obs"), "UnknownAxis"),
        "remove-empty-bogus-axis-copy": (lambda: t.remove_empty(axis="both", inplace=False), "UnknownAxis"),
        "head-zero": (lambda: t.head(0, 3), "Index"),
        "head-negative-m": (lambda: t.head(m=-1), "Index"),
    }[what]
    with kernels.use_kernels(mods):
        res, rt = observe(call)
        after = core.table_obs(t)
        obs = add_lookups({"result": res, "after": after}, before, rt, t, True)
    return {"op": "refused", "t": before, "expect": expect, "what": what, "obs": obs}


def parse_tsv_table(text):
    """the text `biom head` prints: '# Constructed from biom file', '#OTU ID<TAB>samples…', one line per observation"""
    lines = [l for l in text.split("\n") if l.strip() != ""]
    assert lines[0].startswith("# Constructed"), lines[:1]
    header = lines[1].split("\t")
    assert header[0] == "#OTU ID", header
    samp = header[1:]
    obs, rows = [], []
    for l in lines[2:]:
        f = l.split("\t")
        obs.append(f[0])
        rows.append([core.frac(float(x)) for x in f[1:]])
    return {"obs": obs, "samp": samp, "rows": rows, "omd": None, "smd": None, "type": None}


def run_cli_head(spec, fmt, n, m, tmpdir):
    """`biom head -i FILE -n N -m M` on a file written in the given format (the command function of the tree
    under test is called in-process); the truth is the content that was written"""
    import h5py
    import biom.cli.table_head as TH
    t = core.build(spec, "dense")
    path = os.path.join(tmpdir, "in.%s" % fmt)
    out = os.path.join(tmpdir, "out.txt")
    if fmt == "json":
        open(path, "w").write(t.to_json("c08"))
    elif fmt == "hdf5":
        with h5py.File(path, "w") as f:
            t.to_hdf5(f, "c08")
    else:
        open(path, "w").write(t.to_tsv())
    before = core.spec_obs(spec)
    try:
        fn = getattr(TH.head, "callback", TH.head)
        fn(path, out, n, m)
        res = {"ok": parse_tsv_table(open(out).read())}
    except Exception as e:
        res = {"error": core.err_name(e)}
    finally:
        for f in (path, out):
            if os.path.exists(f):
                os.remove(f)
    return {"op": "head", "t": before, "n": n, "m": m, "obs": {"result": res, "after": before}}


# ----------------------------------------------------------------------------- kernel level
def gen_flat(rng, n_major, n_minor, order, zeros):
    indptr, indices, data = [0], [], []
    for _ in range(n_major):
        k = rng.choice([0, 0, 1, 2, n_minor, rng.randint(0, n_minor)])
        k = min(k, n_minor)
        cols = sorted(rng.sample(range(n_minor), k))
        if order == "reversed":
            cols = cols[::-1]
        elif order == "shuffled":
            rng.shuffle(cols)
        for c in cols:
            indices.append(c)
            if zeros and rng.random() < 0.3:
                data.append(0.0)
            else:
                data.append(rng.choice([1.0, 2.0, 3.0, 7.0, -1.0, 0.5, -2.25, 40.0]))
        indptr.append(len(indices))
    return {"nMajor": n_major, "nMinor": n_minor, "indptr": indptr, "indices": indices, "data": data}


def run_kernel(flat, ids, md, keep, form, invert, axis, mods, rng=None):
    import numpy as np
    import scipy.sparse as sp
    indptr = np.array(flat["indptr"], dtype=np.int32)
    indices = np.array(flat["indices"], dtype=np.int32)
    data = np.array(flat["data"], dtype=np.float64)
    if axis == 0:
        arr = sp.csr_matrix((data, indices, indptr), shape=(flat["nMajor"], flat["nMinor"]))
    else:
        arr = sp.csc_matrix((data, indices, indptr), shape=(flat["nMinor"], flat["nMajor"]))
    ids_arr = np.array(ids, dtype=object)
    index = {i: k for k, i in enumerate(ids)}
    metadata = None if md is None else tuple(dict(m) for m in md)
    log = []
    if keep["kind"] == "ids":
        arg = container(form, keep["ids"], rng)
    else:
        arg = make_pred(keep, log)
    try:
        out, oids, omd = mods["_filter"]._filter(arr, ids_arr, metadata, index, arg, axis, invert)
        assert out.getformat() == ("csr" if axis == 0 else "csc")
        shape = out.shape
        n_major, n_minor = (shape[0], shape[1]) if axis == 0 else (shape[1], shape[0])
        obs = {"ok": {"cs": {"nMajor": int(n_major), "nMinor": int(n_minor),
                             "indptr": [int(x) for x in out.indptr], "indices": [int(x) for x in out.indices],
                             "data": [core.frac(x) for x in out.data]},
                      "ids": [str(x) for x in oids], "md": core.canon_md(omd),
                      "calls": [{k: c[k] for k in ("vec", "id", "md")} for c in log]}}
    except Exception as e:
        obs = {"error": core.err_name(e)}
    return {"op": "kernel", "cs": dict(flat, data=[core.frac(x) for x in flat["data"]]), "ids": ids,
            "md": core.canon_md(md), "keep": keep, "invert": invert, "axis_num": axis, "obs": obs}


# ----------------------------------------------------------------------------- batching + verdicts
class Batch:
    def __init__(self, ctx, size=24):
        self.ctx, self.size, self.items = ctx, size, []

    def add(self, req, replay_case, tags):
        self.items.append((req, replay_case, tags))
        if len(self.items) >= self.size:
            self.flush()

    def flush(self):
        if not self.items:
            return
        rs = self.ctx.driver.ask({"op": "batch", "cases": [i[0] for i in self.items]})["results"]
        for (req, case, tags), r in zip(self.items, rs):
            judge(self.ctx, req, case, tags, r)
        self.items = []


def judge(ctx, req, case, tags, r):
    full = dict(case, request=req)
    if r.get("model_holds") is False:
        ctx.diverge(full, "theorem model_holds contradicted by the driver", tags, detail={"model": r["model"]})
    if r.get("twin_ok") is False:
        ctx.diverge(full, "Lean twin of the named predicate disagrees with the Python twin", tags)
    if not r["holds"]:
        ctx.fail(full, r["clause"], tags, detail={"model": r["model"]})
    elif not r["agree"]:
        ctx.diverge(full, "%s: observation differs from the model" % req["op"], tags, detail={"model": r["model"]})
    if req["op"] == "kernel":
        ctx.count("kernel:wf=%s,sorted=%s" % (r.get("wf"), r.get("sorted")))
        ctx.count("kernel:out=%s" % ("ok" if "ok" in req["obs"] else req["obs"]["error"]))
    elif req["op"] == "filter":
        o = req["obs"]["result"]
        ctx.count("filter:out=%s" % ("ok" if "ok" in o else o["error"]))
        if "ok" in o:
            n0 = len(req["t"]["obs" if req["axis"] == "observation" else "samp"])
            n1 = len(o["ok"]["obs" if req["axis"] == "observation" else "samp"])
            ctx.count("filter:kept=%s" % ("all" if n1 == n0 else "none" if n1 == 0 else "some"))


def guarded(ctx, case, tags, fn):
    """the real code raising while a receiver's history is rebuilt or while the table is observed (not in the
    observed call itself, whose exceptions are observations) is a failure of the property's code, not of the harness"""
    try:
        return fn()
    except Exception as e:
        import traceback
        ctx.fail(dict(case, raised=repr(e), where=traceback.format_exc()[-600:]),
                 "real-code-raised-outside-the-observed-call", list(tags) + ["impl=" + str(case.get("impl"))])
        return None


def do_filter(ctx, batch, impl, mods, recipe, axis, keep, form, invert, inplace, tags=(), rng=None, deep=None,
              opts=None):
    case = {"kind": "filter", "recipe": recipe, "axis": axis, "keep": keep, "form": form, "invert": invert,
            "inplace": inplace, "impl": impl}
    if opts:
        case["opts"] = opts
        for k, v in opts.items():
            ctx.count("filter:opt:%s=%s" % (k, v))
    spec = recipe["spec"]
    ctx.case(case, nontrivial=len(spec["obs"]) * len(spec["samp"]) >= 2)   # journalled BEFORE the code under test runs
    if deep is None:
        deep = ctx.evaluations % 8 == 0
    req = guarded(ctx, case, tags, lambda: run_filter(recipe, axis, keep, form, invert, inplace, mods, rng, deep=deep,
                                                       opts=opts))
    if req is None:
        return
    if recipe.get("poke") is not None:
        ctx.count("receiver:layout-poked")
    lay = req["layout"]
    unsorted = any(lay["indices"][a:b] != sorted(lay["indices"][a:b])
                   for a, b in zip(lay["indptr"], lay["indptr"][1:]))
    ctx.count("filter:form=%s" % form)
    ctx.count("filter:receiver-indices=%s" % ("unsorted" if unsorted else "sorted"))
    ctx.count("filter:impl=%s" % impl)
    batch.add(req, case, ["impl=" + impl, "form=" + form, "axis=" + axis] + list(tags))


def do_remove_empty(ctx, batch, impl, mods, recipe, axis, inplace, tags=(), opts=None):
    case = {"kind": "remove_empty", "recipe": recipe, "axis": axis, "inplace": inplace, "impl": impl}
    if opts:
        case["opts"] = opts
    ctx.case(case)
    req = guarded(ctx, case, tags, lambda: run_remove_empty(recipe, axis, inplace, mods, opts=opts))
    if req is None:
        return
    ctx.count("remove_empty:axis=%s" % axis)
    batch.add(req, case, ["impl=" + impl, "remove_empty", "axis=" + axis] + list(tags))


def do_refused(ctx, batch, impl, mods, recipe, what, tags=()):
    case = {"kind": "refused", "recipe": recipe, "what": what, "impl": impl}
    ctx.case(case)
    req = guarded(ctx, case, tags, lambda: run_refused(recipe, what, mods))
    if req is None:
        return
    ctx.count("refused:%s" % what)
    batch.add(req, case, ["impl=" + impl, "refused", what] + list(tags))


def do_head(ctx, batch, impl, mods, recipe, n, m, tags=(), opts=None):
    case = {"kind": "head", "recipe": recipe, "n": n, "m": m, "impl": impl}
    if opts:
        case["opts"] = opts
    ctx.case(case)
    req = guarded(ctx, case, tags, lambda: run_head(recipe, n, m, mods, opts=opts))
    if req is None:
        return
    ctx.count("head:%s" % ("refused" if "error" in req["obs"]["result"] else "block"))
    batch.add(req, case, ["impl=" + impl, "head"] + list(tags))


def do_kernel(ctx, batch, impl, mods, flat, ids, md, keep, form, invert, axis, tags=(), rng=None):
    case = {"kind": "kernel", "flat": flat, "ids": ids, "md": md, "keep": keep, "form": form, "invert": invert,
            "axis": axis, "impl": impl}
    ctx.case(case, nontrivial=flat["nMajor"] >= 1)
    req = run_kernel(flat, ids, md, keep, form, invert, axis, mods, rng)
    ctx.count("kernel:impl=%s" % impl)
    batch.add(req, case, ["impl=" + impl, "kernel", "form=" + form] + list(tags))


# ----------------------------------------------------------------------------- generators
def small_spec(grid, md_mode):
    n, m = len(grid), len(grid[0]) if grid else 0
    obs = ["o%d" % (i + 1) for i in range(n)]
    samp = ["s%d" % (j + 1) for j in range(m)]
    omd = [{"grp": "ab"[i % 2], "n": i} for i in range(n)] if md_mode in (1, 2) else None
    smd = [{"grp": "ba"[j % 2], "tax": ["k__A", "p__%d" % j]} for j in range(m)] if md_mode in (1, 3) else None
    return {"obs": obs, "samp": samp, "rows": [[float(x) for x in r] for r in grid], "omd": omd, "smd": smd,
            "type": "OTU table" if md_mode else None}


def vary_spec(spec, k):
    """variations that apply to ANY spec, chosen by a counter: PARTLY annotated axes (some IDs with, some without
    metadata; entries {} and None alternate) and NAMES SHARED by both axes (same names, same or other order)"""
    spec = dict(spec)
    if k % 4 in (1, 3):
        for ax, key, word in (("obs", "omd", "o"), ("samp", "smd", "s")):
            ids = spec[ax]
            if len(ids) < 2:
                continue
            md = spec.get(key)
            if md is None and (k // 4) % 2:
                md = [{"only": "%s%d" % (word, i)} for i in range(len(ids))]
            if md is None:
                continue
            md = [dict(e) if e else e for e in md]
            blank = [i for i in range(len(ids)) if (i + k // 8) % 2 == 0]
            if len(blank) == len(ids):
                blank = blank[1:]
            for j, i in enumerate(blank):
                md[i] = {} if j % 2 == 0 else None
            mode = (k // 4) % 3
            if mode == 1:
                # legitimate None / falsy VALUES (a missing measurement): entries that hold keys but no truthy value
                falsy = [None, None, 0, "", False, [], 0.0]
                for i, e in enumerate(md):
                    if e and ((k // 12) % 2 == 0 or i % 2 == 0):
                        md[i] = {kk: (None if (k // 24) % 2 == 0 else falsy[(i + j) % len(falsy)])
                                 for j, kk in enumerate(sorted(e))}
            elif mode == 2:
                # entries annotated with DIFFERENT fields
                for i, e in enumerate(md):
                    if e:
                        ks = sorted(e)
                        md[i] = dict([(kk, e[kk]) for j, kk in enumerate(ks) if (i + j) % 2 == 0] + [("f%d" % (i % 3), i)])
            spec[key] = md
    if k % 4 in (2, 3):
        obs, samp = list(spec["obs"]), list(spec["samp"])
        shared = min(len(obs), len(samp)) if (k // 4) % 3 else 1
        names = obs[:shared]
        if (k // 4) % 2:
            names = names[::-1]
        spec["samp"] = names + samp[shared:]
    return spec


def all_grids(n, m, alphabet=(0, 1, 2)):
    for cells in itertools.product(alphabet, repeat=n * m):
        yield [list(cells[i * m:(i + 1) * m]) for i in range(n)]


def subsets(ids):
    for mask in range(2 ** len(ids)):
        yield [ids[i] for i in range(len(ids)) if mask >> i & 1]


VEC_PREDS = [{"name": "sum_gt", "k": "1"}, {"name": "wsum_gt", "k": "3"}, {"name": "first_nz"},
             {"name": "last_pos"}, {"name": "nnz_ge", "k": "2"}, {"name": "md_eq", "key": "grp", "val": "\"a\""},
             {"name": "md_idx", "key": "grp", "val": "\"a\""}, {"name": "md_idx", "key": "n", "val": "1"},
             {"name": "true"}, {"name": "false"}]
SMALL_ROUTES = ["dense", "perm_sort", "csr", "csc", "sort_roundtrip", "perm_sort", "coo", "transpose2"]


def pred_desc(d):
    d = dict({"kind": "pred"}, **d)
    if d.get("name") == "md_idx":
        d["effect_key"] = d["key"]      # the user's function writes this key into the entries it is handed
    return d


def exhaustive_chunk(ctx, batch, impls, grids, full_product_upto=0):
    """`grids` = [(running number, grid)…].  Every grid x axis x every subset x invert; the remaining factors
    (inplace x container form x kernel implementation) rotate so that each combination of them occurs
    equally often, the receiver route rotates per grid and axis; for grids with at most
    `full_product_upto` cells the whole product runs.  Then the predicates that look at the vector or the
    metadata: every grid x axis x invert, one predicate each in turn."""
    combos = [(ip, f, k) for ip in (False, True) for f in FORMS for k in range(len(impls))]
    for gi, grid in grids:
        rot = gi * 7
        n, m = len(grid), len(grid[0])
        spec = vary_spec(small_spec(grid, gi % 4), gi // 4)
        for axis in ("observation", "sample"):
            ids = spec["obs"] if axis == "observation" else spec["samp"]
            recipe = {"spec": spec, "route": SMALL_ROUTES[(gi + (axis == "sample")) % len(SMALL_ROUTES)]}
            if gi % 3 == 0:
                recipe["poke"] = gi
            for sub in subsets(ids):
                for invert in (False, True):
                    todo = combos if n * m <= full_product_upto else [combos[rot % len(combos)]]
                    for (inplace, form, k) in todo:
                        rot += 1
                        impl, mods = impls[k]
                        if form == "pred":
                            keep = pred_desc({"name": "id_in", "ids": sub})
                        else:
                            keep = {"kind": "ids", "ids": sub}
                        do_filter(ctx, batch, impl, mods, recipe, axis, keep, form, invert, inplace, ("exhaustive",))
            for invert in (False, True):
                rot += 1
                inplace, _, k = combos[rot % len(combos)]
                impl, mods = impls[k]
                keep = pred_desc(VEC_PREDS[rot % len(VEC_PREDS)])
                do_filter(ctx, batch, impl, mods, recipe, axis, keep, "pred", invert, inplace, ("exhaustive", "vecpred"))


def grid_list(ctx, shapes, sample=None):
    out = []
    for (n, m) in shapes:
        pool = list(all_grids(n, m))
        if sample is not None and len(pool) > sample:
            pool = ctx.rng.sample(pool, sample)
        out.extend(pool)
    return list(enumerate(out))


_JOURNAL_BASE = None


def _worker(args):
    """one shard of the exhaustive space in a forked process with its own Lean driver"""
    tier, seed, grids, full_upto = args
    # every shard keeps its own per-case journal; a shard that dies is reported by collect() with its last case
    global _JOURNAL_BASE
    if _JOURNAL_BASE is None:
        _JOURNAL_BASE = os.environ.get("VERIF_JOURNAL", "")
    if _JOURNAL_BASE:
        os.environ["VERIF_JOURNAL"] = "%s.shard%d" % (_JOURNAL_BASE, os.getpid())
    ctx = core.Ctx("C08", tier, seed)
    impls = [(n, m) for n, m in kernels.kernel_impls() if m is not None]
    batch = Batch(ctx)
    try:
        exhaustive_chunk(ctx, batch, impls, grids, full_upto)
        batch.flush()
    finally:
        ctx.close()
    return {"evaluations": ctx.evaluations, "nontrivial": ctx.nontrivial, "dist": ctx.dist,
            "violations": ctx.violations, "divergences": ctx.divergences, "known_hits": ctx.known_hits,
            "samples": ctx.samples, "driver_calls": ctx._driver.calls if ctx._driver else 0}


class Shards:
    """quick tier: the exhaustive space is sharded by grid over forked processes (disjoint grids => disjoint
    cases), each with its own Lean driver; with pool=0 (thorough tier: ./check already runs several workers,
    each taking the grids `ctx.mine(k)`) the shard runs inline"""

    live = []

    def __init__(self, ctx, batch, impls, grids, full_upto, pool):
        self.ctx, self.pending, self.pool = ctx, [], None
        Shards.live.append(self)
        if pool <= 0:
            exhaustive_chunk(ctx, batch, impls, grids, full_upto)
            return
        import multiprocessing
        size = max(1, min(400, len(grids) // (pool * 3) + 1))
        chunks = [grids[i:i + size] for i in range(0, len(grids), size)]
        self.pool = multiprocessing.get_context("fork").Pool(pool)
        self.pending = [self.pool.apply_async(_worker, ((ctx.tier, ctx.seed, c, full_upto),)) for c in chunks]

    def collect(self):
        ctx = self.ctx
        for n, p in enumerate(self.pending):
            try:
                r = p.get(timeout=900)
            except Exception as e:       # a forked shard died (interpreter crash in native code?) or hung
                last = []
                for f in self.journals():
                    try:
                        last.append(json.load(open(f)).get("case"))
                    except Exception:
                        pass
                ctx.fail({"kind": "exhaustive-shard", "shard": n, "error": repr(e), "last_cases_of_the_shards": last},
                         "a forked shard of the exhaustive space did not return", ("exhaustive", "shard-lost"))
                continue
            ctx.evaluations += r["evaluations"]
            ctx.nontrivial += r["nontrivial"]
            for k, v in r["dist"].items():
                ctx.count(k, v)
            ctx.violations.extend(r["violations"])
            ctx.divergences.extend(r["divergences"])
            for kid, hit in r["known_hits"].items():
                if kid in ctx.known_hits:
                    ctx.known_hits[kid]["n"] += hit["n"]
                else:
                    ctx.known_hits[kid] = hit
            if len(ctx.samples) < 3:
                ctx.samples.extend(r["samples"][:3 - len(ctx.samples)])
            ctx.driver.calls += r["driver_calls"]
        if self.pool is not None:
            self.pool.close()
            self.pool.join()
            self.pool = None
        self.abandon()

    def abandon(self):
        if self in Shards.live:
            Shards.live.remove(self)
        if self.pool is not None:
            self.pool.terminate()
            self.pool.join()
            self.pool = None
        for f in self.journals():
            try:
                os.remove(f)
            except OSError:
                pass

    @staticmethod
    def journals():
        import glob
        base = os.environ.get("VERIF_JOURNAL")
        return glob.glob(base + ".shard*") if base else []


def random_hist(rng, spec):
    obs, samp = list(spec["obs"]), list(spec["samp"])
    c = rng.random()
    if c < 0.3:
        ax = rng.choice(["observation", "sample"])
        order = obs[:] if ax == "observation" else samp[:]
        rng.shuffle(order)
        return [["sort", ax, order]]
    if c < 0.45:
        return [["transpose"]]
    if c < 0.6:
        po, ps = obs[:], samp[:]
        rng.shuffle(po)
        rng.shuffle(ps)
        return [["align", po, ps]]
    if c < 0.75 and len(samp) >= 2:
        return [["concat", rng.randint(1, len(samp) - 1)]]
    if c < 0.85 and len(samp) >= 2:
        keep = [s for s in samp if rng.random() < 0.7] or samp[:1]
        order = keep[:]
        rng.shuffle(order)
        return [["prefilter", "sample", keep], ["sort", "sample", order]]
    return []


def random_cases(ctx, batch, impls, n_cases, max_dim):
    rng = ctx.rng
    for _ in range(n_cases):
        spec = core.gen_spec(rng, max_n=max_dim, max_m=max_dim,
                             classes=rng.choice([("count",), ("smallcount", "neg"), ("dyadic", "neg", "count"),
                                                 ("tiny", "big", "smallcount"), ("bits", "count")]))
        if rng.random() < 0.2:
            # values at the edges of binary64 that are carried, never computed: denormals, integers beyond 2**24 and
            # 2**53, non-dyadic fractions
            edge = [5e-324, 2.0 ** 24 + 1, 2.0 ** 53 + 2, 0.1, 1.0 / 3, -0.7, 1e-310, 123456789.125]
            spec["rows"] = [[rng.choice(edge) if x != 0 and rng.random() < 0.6 else x for x in r] for r in spec["rows"]]
        if rng.random() < 0.45:
            spec = vary_spec(spec, rng.randrange(48))       # partly annotated axes, names shared by both axes
        recipe = {"spec": spec, "route": rng.choice(core.ROUTES + ["perm_sort"]), "hist": random_hist(rng, spec)}
        if rng.random() < 0.5:
            recipe["poke"] = rng.randrange(10 ** 6)       # leave the receiver in a random internal layout
        t = guarded(ctx, {"kind": "receiver", "recipe": recipe}, ("random",), lambda: make_receiver(recipe))
        if t is None:
            continue
        axis = rng.choice(["observation", "sample"])
        ids = [str(x) for x in t.ids(axis=axis)]
        impl, mods = impls[rng.randrange(len(impls))]
        invert, inplace = rng.random() < 0.5, rng.random() < 0.5
        c = rng.random()
        if c < 0.45:
            sub = [i for i in ids if rng.random() < 0.5]
            form = rng.choice(["list", "set", "tuple", "array", "strarray", "dictkeys", "frozenset"])
            do_filter(ctx, batch, impl, mods, recipe, axis, {"kind": "ids", "ids": sub}, form, invert, inplace,
                      ("random",), rng)
        elif c < 0.85:
            d = dict(rng.choice(VEC_PREDS + [{"name": "mix"}, {"name": "id_in"}]))
            if d["name"] in ("mix", "id_in"):
                d["ids"] = [i for i in ids if rng.random() < 0.5]
            if d["name"] in ("sum_gt", "wsum_gt", "mix"):
                d["k"] = core.frac(rng.choice([0, 1, 3, 10, 40, -2, 0.5]))
            if d["name"] == "md_eq":
                d["val"] = rng.choice(["\"a\"", "\"b\"", "\"c\""])
            do_filter(ctx, batch, impl, mods, recipe, axis, pred_desc(d), "pred", invert, inplace, ("random",))
        elif c < 0.93:
            ax = rng.choice(["observation", "sample", "whole"])
            do_remove_empty(ctx, batch, impl, mods, recipe, ax, inplace, ("random",))
        else:
            n, m = rng.choice([-1, 0, 1, 2, 3, 5, 9]), rng.choice([-2, 0, 1, 2, 4, 5, 9])
            if rng.random() < 0.7:
                n, m = max(n, 1), max(m, 1)
            do_head(ctx, batch, impl, mods, recipe, n, m, ("random",))


def unknown_id_cases(ctx, batch, impls, n_cases, fixed=True):
    rng = ctx.rng
    for _ in range(n_cases):
        spec = core.gen_spec(rng, max_n=4, max_m=4, classes=("smallcount", "neg"))
        recipe = {"spec": spec, "route": rng.choice(core.ROUTES + ["perm_sort"]), "hist": random_hist(rng, spec)}
        t = guarded(ctx, {"kind": "receiver", "recipe": recipe}, ("unknown-id",), lambda: make_receiver(recipe))
        if t is None:
            continue
        axis = rng.choice(["observation", "sample"])
        ids = [str(x) for x in t.ids(axis=axis)]
        other = [str(x) for x in t.ids(axis="sample" if axis == "observation" else "observation")]
        sub = [i for i in ids if rng.random() < 0.5]
        # an ID of the other axis, a never-used ID, texts that look like members (extensions, prefixes, case
        # variants, blanks of existing IDs; longer than every existing ID)
        tricky = core.tricky_unknown_ids(ids) if ids else []
        bad = rng.choice([other[0] if other else "nope", "nope", ""] + tricky * 2)
        if bad in ids:
            bad = "nope!"
        sub.insert(rng.randint(0, len(sub)), bad)
        impl, mods = impls[rng.randrange(len(impls))]
        prof = rng.choice([None, None, "raise", "warn"])
        do_filter(ctx, batch, impl, mods, recipe, axis, {"kind": "ids", "ids": sub},
                  rng.choice(["list", "tuple", "array", "strarray", "set"]), rng.random() < 0.5, rng.random() < 0.5,
                  ("unknown-id",), deep=True, opts={"profile": prof} if prof else None)
    for what in ("int", "none", "callable-object") if fixed else ():
        for impl, mods in impls:
            spec = small_spec([[1, 0, 2], [0, 3, 0]], 1)
            do_filter(ctx, batch, impl, mods, {"spec": spec, "route": "dense"}, "sample",
                      {"kind": "other", "what": what}, "other", False, True, ("not-iterable-not-function",))


def remove_empty_cases(ctx, batch, impls, shapes, sample):
    """grids over {-1,0,1}: negative values and zero-sum vectors are not empty"""
    rot = 0
    for (n, m) in shapes:
        pool = list(all_grids(n, m, (-1, 0, 1)))
        if len(pool) > sample:
            pool = ctx.rng.sample(pool, sample)
        for gi, grid in enumerate(pool):
            spec = small_spec(grid, gi % 4)
            for axis in ("observation", "sample", "whole"):
                rot += 1
                impl, mods = impls[rot % len(impls)]
                recipe = {"spec": spec, "route": SMALL_ROUTES[rot % len(SMALL_ROUTES)]}
                do_remove_empty(ctx, batch, impl, mods, recipe, axis, bool((rot // 2) % 2), ("remove-empty-grid",))


def head_cases(ctx, batch, impls):
    rot = 0
    for (n, m) in [(1, 1), (2, 3), (3, 2), (4, 5), (6, 3)]:
        grid = [[(i * m + j) % 4 for j in range(m)] for i in range(n)]
        for md_mode in (0, 1, 2, 3):
            # md_mode 2, 3: partly annotated axes and names shared by both axes (same / reversed order)
            spec = small_spec(grid, md_mode % 2)
            if md_mode >= 2:
                spec = vary_spec(spec, [7, 11][md_mode - 2] + 4 * (n + m))
            for hn in (-1, 0, 1, 2, n, n + 3):
                for hm in (0, 1, 2, m, m + 2):
                    rot += 1
                    impl, mods = impls[rot % len(impls)]
                    do_head(ctx, batch, impl, mods, {"spec": spec, "route": SMALL_ROUTES[rot % len(SMALL_ROUTES)]},
                            hn, hm, ("head-grid",))


def kernel_cases(ctx, batch, impls, n_cases, fixed=True):
    rng = ctx.rng
    # fixed: the layout of the design note, the empty matrix, empty vectors only
    fixed_flats = [
        {"nMajor": 3, "nMinor": 3, "indptr": [0, 2, 3, 6], "indices": [2, 0, 1, 0, 1, 2], "data": [5.0, 7.0, 9.0, 1.0, 2.0, 3.0]},
        {"nMajor": 0, "nMinor": 3, "indptr": [0], "indices": [], "data": []},
        {"nMajor": 3, "nMinor": 0, "indptr": [0, 0, 0, 0], "indices": [], "data": []},
        {"nMajor": 2, "nMinor": 2, "indptr": [0, 0, 0], "indices": [], "data": []},
        {"nMajor": 2, "nMinor": 3, "indptr": [0, 3, 5], "indices": [1, 2, 0, 2, 1], "data": [0.0, 4.0, 0.0, 0.0, 6.0]},
    ]
    for flat in (fixed_flats if fixed else []):
        ids = ["v%d" % i for i in range(flat["nMajor"])]
        for sub in subsets(ids):
            for invert in (False, True):
                for axis in (0, 1):
                    for impl, mods in impls:
                        do_kernel(ctx, batch, impl, mods, flat, ids, None, {"kind": "ids", "ids": sub}, "list",
                                  invert, axis, ("fixed",))
        for d in VEC_PREDS[:5]:
            for impl, mods in impls:
                do_kernel(ctx, batch, impl, mods, flat, ids, None, pred_desc(d), "pred", False, 0, ("fixed",))
    for i in range(n_cases):
        n_major, n_minor = rng.randint(0, 5), rng.randint(0, 5)
        order = rng.choice(["sorted", "reversed", "shuffled", "shuffled"])
        zeros = rng.random() < 0.4
        flat = gen_flat(rng, n_major, n_minor, order, zeros)
        ids = ["v%d" % k for k in range(n_major)]
        md = None
        if rng.random() < 0.5:
            md = [{"grp": rng.choice("abc"), "n": k} for k in range(n_major)]
        invert = rng.random() < 0.5
        axis = rng.choice([0, 1])
        if rng.random() < 0.6:
            sub = [x for x in ids if rng.random() < 0.5]
            if rng.random() < 0.08:
                sub.append("unknown")
            keep, form = {"kind": "ids", "ids": sub}, rng.choice(["list", "set", "tuple", "array"])
        else:
            d = dict(rng.choice(VEC_PREDS + [{"name": "mix", "ids": [x for x in ids if rng.random() < 0.5], "k": "2"}]))
            keep, form = pred_desc(d), "pred"
        for impl, mods in impls:
            do_kernel(ctx, batch, impl, mods, flat, ids, md, keep, form, invert, axis,
                      ("order=" + order, "zeros=%s" % zeros), rng=None)


def do_cli_head(ctx, batch, spec, fmt, n, m, tmpdir, tags=()):
    case = {"kind": "cli_head", "spec": spec, "fmt": fmt, "n": n, "m": m}
    ctx.case(case)
    req = run_cli_head(spec, fmt, n, m, tmpdir)
    ctx.count("cli-head:fmt=%s" % fmt)
    batch.add(req, case, ["cli-head", "fmt=" + fmt] + list(tags))


def wide_spec(rng, n, m, md_mode):
    """long axes (>= 64 IDs): sparse small counts, numbered IDs"""
    obs = ["O%d" % i for i in range(n)]
    samp = ["S%d" % j for j in range(m)]
    rows = [[float(rng.choice([1, 2, 3, 5])) if rng.random() < 0.12 else 0.0 for _ in range(m)] for _ in range(n)]
    omd = [{"grp": "abc"[i % 3], "n": i} for i in range(n)] if md_mode in (1, 2) else None
    smd = [{"grp": "cab"[j % 3]} for j in range(m)] if md_mode in (1, 3) else None
    return {"obs": obs, "samp": samp, "rows": rows, "omd": omd, "smd": smd, "type": None}


def wide_cases(ctx, batch, impls, n_cases):
    """receivers with 64-150 IDs on an axis and SMALL ID collections given in an order that is not the axis
    order (lists, tuples, arrays; sets and predicates as controls), both axes, inplace and not: size- or
    container-dependent shortcuts must still keep the original relative order"""
    rng = ctx.rng
    shapes = [(4, 100), (100, 4), (3, 64), (64, 3), (2, 150), (128, 2), (5, 71), (90, 5)]
    forms = ["list", "tuple", "array", "strarray", "list", "tuple", "array", "set", "pred", "frozenset"]
    for c in range(n_cases):
        n, m = shapes[c % len(shapes)]
        if c % 40 == 39:
            n, m = 70, 70
        if c % 40 in (17, 18):
            n, m = [(2, 600), (520, 2)][c % 2]             # beyond 512 IDs
        spec = wide_spec(rng, n, m, c % 4)
        if c % 3 == 2:
            spec = vary_spec(spec, c)
        recipe = {"spec": spec, "route": ["dense", "csr", "perm_sort", "csc"][c % 4]}
        long_axis = "sample" if m >= n else "observation"
        axis = long_axis if c % 5 else ("observation" if long_axis == "sample" else "sample")
        ids = spec["obs"] if axis == "observation" else spec["samp"]
        k = rng.choice([1, 2, 2, 3, 5, 8]) if len(ids) >= 64 else rng.randint(1, len(ids))
        if c % 9 == 8:
            k = max(2, len(ids) // 2)
        sub = rng.sample(ids, min(k, len(ids)))
        order = c % 3
        if order == 0:
            sub = sorted(sub, key=ids.index, reverse=True)       # reverse axis order
        elif order == 1 and len(sub) > 1:
            sub = sub[1:] + sub[:1]                               # rotated
        form = forms[c % len(forms)]
        invert = c % 11 == 10
        inplace = bool((c // 2) % 2)
        impl, mods = impls[c % len(impls)]
        keep = pred_desc({"name": "id_in", "ids": sub}) if form == "pred" else {"kind": "ids", "ids": sub}
        ctx.count("wide:axis-len=%s" % (">=64" if len(ids) >= 64 else "<64"))
        do_filter(ctx, batch, impl, mods, recipe, axis, keep, form, invert, inplace, ("wide", "order=%d" % order),
                  deep=(n * m <= 600))


def chain_cases(ctx, batch, impls, shard=(0, 1)):
    """two-step histories: a filter that drops a NON-trailing ID (in place or not), then a second ID-based
    operation on its result — filter by IDs / by predicate on the same and on the other axis, remove_empty,
    head, and a request naming an ID the first step removed (must be refused, table unchanged)"""
    grids = [
        [[1, 0, 2, 0], [0, 0, 0, 0], [3, 4, 0, 5], [0, 6, 0, 7], [8, 0, 0, 9]],
        [[0, 1, 2], [3, 0, 4], [0, 0, 0], [5, 6, 0]],
    ]
    k = 0
    for gi, grid in enumerate(grids):
        for md_mode in (0, 1):
            spec = small_spec(grid, md_mode)
            if gi == 1:
                spec = vary_spec(spec, 3 + 4 * md_mode)     # partly annotated axes, a name shared by both axes
            for axis1 in ("observation", "sample"):
                ids1 = spec["obs"] if axis1 == "observation" else spec["samp"]
                other = spec["samp"] if axis1 == "observation" else spec["obs"]
                axis2o = "sample" if axis1 == "observation" else "observation"
                for drop in ([ids1[0]], [ids1[1]], [ids1[0], ids1[2]]):
                    kept1 = [i for i in ids1 if i not in drop]
                    for step1 in ("prefilter", "prefilter_copy"):
                        recipe = {"spec": spec, "route": ["dense", "csr", "perm_sort"][k % 3],
                                  "hist": [[step1, axis1, kept1]]}
                        if k % 2:
                            recipe["poke"] = 1000 + k
                        tags = ("chain", "first=" + axis1, step1)
                        for inplace in (False, True):
                            k += 1
                            if k % shard[1] != shard[0]:
                                continue
                            impl, mods = impls[k % len(impls)]
                            F = lambda ax, keep, form, inv=False: do_filter(
                                ctx, batch, impl, mods, recipe, ax, keep, form, inv, inplace, tags, deep=True)
                            # same axis, by IDs: the last kept one; all but the first kept one; reversed list
                            F(axis1, {"kind": "ids", "ids": [kept1[-1]]}, "list")
                            F(axis1, {"kind": "ids", "ids": kept1[1:][::-1]}, "tuple")
                            F(axis1, {"kind": "ids", "ids": [kept1[0]]}, "array", True)
                            F(axis1, pred_desc({"name": "sum_gt", "k": "4"}), "pred")
                            # an ID removed by the first step is unknown now
                            F(axis1, {"kind": "ids", "ids": [kept1[-1], drop[0]]}, "list")
                            F(axis1, {"kind": "ids", "ids": [drop[-1]]}, "set", True)
                            # other axis
                            F(axis2o, {"kind": "ids", "ids": [other[-1], other[0]]}, "list")
                            F(axis2o, pred_desc({"name": "first_nz"}), "pred", True)
                            for ax in ("observation", "sample", "whole"):
                                do_remove_empty(ctx, batch, impl, mods, recipe, ax, inplace, tags)
                            do_head(ctx, batch, impl, mods, recipe, 2, 2, tags)
                            do_head(ctx, batch, impl, mods, recipe, len(grid), 1, tags)


def cli_head_cases(ctx, batch):
    """the `biom head` command on JSON / HDF5 / TSV files whose leading block holds an all-zero observation
    and an all-zero sample: the command must print exactly the leading n x m block"""
    import shutil
    import tempfile
    grids = [
        [[1, 0, 2, 0, 0, 0, 1], [0, 0, 0, 0, 0, 9, 0], [3, 4, 0, 0, 0, 0, 0], [0, 0, 0, 0, 0, 0, 0],
         [0, 5, 6, 0, 7, 0, 0], [8, 0, 0, 0, 0, 0, 2]],
        [[0, 0, 3], [0, 0, 0], [0, 2, 1], [4, 0, 0]],
    ]
    os.makedirs("/tmp/C08", exist_ok=True)
    tmpdir = tempfile.mkdtemp(dir="/tmp/C08")
    try:
        for grid in grids:
            spec = small_spec(grid, 0)
            n0, m0 = len(grid), len(grid[0])
            for fmt in ("json", "hdf5", "tsv"):
                for (n, m) in [(1, 1), (2, 2), (2, m0), (n0, 1), (4, 3), (n0 - 1, m0 - 1), (n0, m0), (n0 + 3, m0 + 2)]:
                    do_cli_head(ctx, batch, spec, fmt, n, m, tmpdir)
        batch.flush()
    finally:
        shutil.rmtree(tmpdir, ignore_errors=True)


HARD_IDS = ["s1", "s1 ", "S1", "s10", "s1\n", " s1", "\u00e91", "\u65e5\u672c\u8a9e", "s", "s1_long_long_long_long"]


def hardening_cases(ctx, batch, impls, n_cases, first=True):
    """recurring themes of changes that escaped earlier versions: caches keyed by object identity (read, change in
    place keeping the objects, filter again), live tables derived from one source around an in-place filter,
    error profiles, every spelling of the arguments, ID texts that look alike, predicate function objects re-used
    across tables"""
    rng = ctx.rng
    # (a) read -> in-place change that keeps the matrix / ID / metadata objects -> filter judged on CURRENT content
    for c in range(n_cases):
        spec = core.gen_spec(rng, max_n=4, max_m=5, min_n=2, min_m=2, classes=("smallcount", "count"), alphabet="ascii")
        if spec["omd"] is None:
            spec["omd"] = [{"grp": "ab"[i % 2], "n": i} for i in range(len(spec["obs"]))]
        if spec["smd"] is None:
            spec["smd"] = [{"grp": "ba"[j % 2]} for j in range(len(spec["samp"]))]
        axis = rng.choice(["observation", "sample"])
        ids = spec["obs"] if axis == "observation" else spec["samp"]
        change = rng.choice(["double", "zero_first", "update_ids", "md_mutate", "del_md"])
        if change in ("double", "zero_first"):
            ch = ["transform", axis, change]
            new_ids = ids
        elif change == "update_ids":
            mapping = [[i, i + "_renamed_to_something_longer"] for i in ids[::2]]
            ch = ["update_ids", axis, mapping]
            new_ids = [dict(mapping).get(i, i) for i in ids]
        elif change == "md_mutate":
            ch = ["md_mutate", axis, 0, "grp", "z"]
            new_ids = ids
        else:
            ch = ["del_md", axis, ["grp"]]
            new_ids = ids
        recipe = {"spec": spec, "route": rng.choice(core.ROUTES + ["perm_sort"]),
                  "hist": [["read", axis], ch] + ([["read", axis]] if c % 3 == 0 else []), "poke": rng.randrange(10 ** 6)}
        impl, mods = impls[c % len(impls)]
        inplace, invert = bool(c % 2), bool((c // 2) % 2)
        tags = ("cache", "change=" + change)
        k = c % 5
        if k == 0:
            do_filter(ctx, batch, impl, mods, recipe, axis, pred_desc({"name": "md_eq", "key": "grp",
                      "val": rng.choice(["\"z\"", "\"a\""])}), "pred", invert, inplace, tags, deep=True)
        elif k == 1:
            do_filter(ctx, batch, impl, mods, recipe, axis, {"kind": "ids", "ids": new_ids[1:][::-1]},
                      rng.choice(["list", "array", "set"]), invert, inplace, tags, deep=True)
        elif k == 2:
            do_filter(ctx, batch, impl, mods, recipe, axis, pred_desc({"name": "sum_gt", "k": "3"}), "pred", invert,
                      inplace, tags, deep=True, opts={"shared": True})
        elif k == 3:
            do_remove_empty(ctx, batch, impl, mods, recipe, rng.choice([axis, "whole"]), inplace, tags)
        else:
            # an ID that was renamed away is unknown now
            old = [i for i in ids if i not in new_ids]
            do_filter(ctx, batch, impl, mods, recipe, axis, {"kind": "ids", "ids": new_ids[:1] + old[:1]},
                      "list", invert, inplace, tags, deep=True)
    # (b) live tables derived from one source; one of them is filtered in place, all the others must stay what
    # they were and answer through their own lookups
    kinds_pool = ["self", "copy", "filter_all", "filter_pred", "sort", "transpose", "ctor"]
    for c in range(n_cases):
        spec = core.gen_spec(rng, max_n=4, max_m=4, min_n=2, min_m=2, classes=("smallcount",), alphabet="ascii")
        spec = vary_spec(spec, c)
        kinds = ["self"] + rng.sample(kinds_pool[1:], 3)
        target = c % len(kinds)
        recipe = {"spec": spec, "route": rng.choice(["dense", "csr", "csc", "perm_sort"]),
                  "family": {"kinds": kinds, "target": target}, "poke": rng.randrange(10 ** 6)}
        if c % 3 == 1 and kinds[target] != "transpose":
            # the target's names are rotated / swapped in place AFTER the derivation: every other member keeps the
            # old names and must still find them itself
            ax0 = rng.choice(["observation", "sample"])
            ids0 = spec["obs"] if ax0 == "observation" else spec["samp"]
            rot = ids0[1:] + ids0[:1]
            if not set(rot) & (set(spec["obs"]) if ax0 == "sample" else set(spec["samp"])) or True:
                recipe["family"]["target_hist"] = [["update_ids", ax0, [[a, b] for a, b in zip(ids0, rot)]]]
        fam = guarded(ctx, {"kind": "receiver", "recipe": recipe}, ("family",), lambda: make_family(recipe))
        if fam is None:
            continue
        t = fam[0]
        axis = rng.choice(["observation", "sample"])
        ids = [str(x) for x in t.ids(axis=axis)]
        impl, mods = impls[c % len(impls)]
        keep = {"kind": "ids", "ids": [i for i in ids if rng.random() < 0.5]} if c % 2 else \
            pred_desc({"name": "wsum_gt", "k": "3"})
        do_filter(ctx, batch, impl, mods, recipe, axis, keep, "list" if c % 2 else "pred", bool(c % 3 == 0),
                  c % 4 != 0, ("family", "target=" + kinds[target]), deep=True)
    # (c) error profiles in force during the call: 'warn' and 'call' change nothing; under 'raise' a request whose
    # result has an empty axis raises TableException (the copying call leaves the receiver alone)
    for c in range(n_cases):
        spec = core.gen_spec(rng, max_n=3, max_m=4, min_n=1, min_m=1, classes=("smallcount",), alphabet="ascii")
        spec = vary_spec(spec, c // 2)
        recipe = {"spec": spec, "route": rng.choice(core.ROUTES), "poke": rng.randrange(10 ** 6) if c % 2 else None}
        axis = rng.choice(["observation", "sample"])
        ids = spec["obs"] if axis == "observation" else spec["samp"]
        prof = ["raise", "raise", "warn", "call"][c % 4]
        impl, mods = impls[c % len(impls)]
        inplace = bool((c // 4) % 2)
        choice = c % 6
        if choice == 0:
            keep, form, invert = {"kind": "ids", "ids": []}, "list", False           # empties the axis
        elif choice == 1:
            keep, form, invert = {"kind": "ids", "ids": list(ids)}, "tuple", True   # empties the axis
        elif choice == 2:
            keep, form, invert = pred_desc({"name": "false"}), "pred", False
        elif choice == 3:
            keep, form, invert = pred_desc({"name": "sum_gt", "k": "2"}), "pred", bool(c % 2)
        elif choice == 4:
            keep, form, invert = {"kind": "ids", "ids": ids[:1]}, "array", False
        else:
            keep, form, invert = {"kind": "ids", "ids": ids[:1] + [ids[0] + "x"]}, "list", False   # refused first
        do_filter(ctx, batch, impl, mods, recipe, axis, keep, form, invert, inplace, ("profile=" + prof,), deep=True,
                  opts={"profile": prof})
        if prof != "raise" and c % 3 == 0:
            do_remove_empty(ctx, batch, impl, mods, recipe, rng.choice(["observation", "sample", "whole"]), inplace,
                            ("profile=" + prof,), opts={"profile": prof})
    # (d) every spelling of the arguments
    for c in range(n_cases):
        spec = core.gen_spec(rng, max_n=7, max_m=7, min_n=1, min_m=1, classes=("smallcount",), alphabet="ascii")
        spec = vary_spec(spec, c)
        recipe = {"spec": spec, "route": rng.choice(core.ROUTES)}
        axis = rng.choice(["observation", "sample"])
        ids = spec["obs"] if axis == "observation" else spec["samp"]
        impl, mods = impls[c % len(impls)]
        style = ["int", "np", None][c % 3]
        opts = {"style": style, "positional": bool(c % 2)}
        do_filter(ctx, batch, impl, mods, recipe, axis, {"kind": "ids", "ids": [i for i in ids if rng.random() < 0.5]},
                  rng.choice(["list", "dictkeys", "strarray"]), bool(c % 2), bool((c // 2) % 2), ("spelling",), opts=opts)
        do_head(ctx, batch, impl, mods, recipe, rng.randint(1, 8), rng.randint(1, 8), ("spelling",),
                opts={"style": ["kw", "default", "n_only", "m_only"][c % 4]})
        if c % 4 == 0:
            do_remove_empty(ctx, batch, impl, mods, recipe, rng.choice(["observation", "sample", "whole"]), bool(c % 8),
                            ("spelling",), opts={"positional": True})
        if c % 5 == 0:
            what = ["filter-bogus-axis", "filter-pred-bogus-axis", "remove-empty-bogus-axis",
                    "remove-empty-bogus-axis-copy", "head-zero", "head-negative-m"][(c // 5) % 6]
            do_refused(ctx, batch, impl, mods, recipe, what)
    # (e) ID texts that look alike (blanks, case, prefixes, a trailing newline, non-ASCII): requests naming members
    # and texts that only look like members; the same on a long axis
    for c in range(n_cases):
        pool = HARD_IDS + core.twin_ids(rng, 2) + rng.sample(core.NASTY_TEXTS, 4)
        k = rng.randint(2, 8)
        ids = rng.sample(pool, k)
        other = ["o%d" % i for i in range(rng.randint(1, 3))]
        if c % 4 == 3:
            other[0] = ids[-1]                      # a name that stands on both axes
        axis = "sample" if c % 2 else "observation"
        # texts that trip naive handling also as metadata VALUES, on some of the IDs only
        md = [({"txt": rng.choice(core.NASTY_TEXTS), "n": i} if i % 3 != 1 else ({} if i % 2 else None))
              for i in range(len(ids))] if c % 3 else None
        spec = {"obs": other if axis == "sample" else ids, "samp": ids if axis == "sample" else other,
                "rows": None, "omd": md if axis == "observation" else None, "smd": md if axis == "sample" else None,
                "type": None}
        spec["rows"] = [[float(rng.choice([0, 0, 1, 2])) for _ in spec["samp"]] for _ in spec["obs"]]
        if md is not None and c % 2 == 0:
            val = json.dumps(md[0]["txt"], sort_keys=True, ensure_ascii=False)
            impl, mods = impls[c % len(impls)]
            do_filter(ctx, batch, impl, mods, {"spec": spec, "route": rng.choice(core.ROUTES)}, axis,
                      pred_desc({"name": "md_eq", "key": "txt", "val": val}), "pred", bool(c % 4 == 0), bool(c % 8 < 4),
                      ("hard-ids", "nasty-metadata"), deep=True)
        recipe = {"spec": spec, "route": rng.choice(core.ROUTES)}
        impl, mods = impls[c % len(impls)]
        sub = [i for i in ids if rng.random() < 0.5]
        if c % 2:
            tr = core.tricky_unknown_ids(ids)
            sub.insert(rng.randint(0, len(sub)), rng.choice(tr))
        do_filter(ctx, batch, impl, mods, recipe, axis, {"kind": "ids", "ids": sub},
                  rng.choice(["list", "tuple", "array", "strarray", "set"]), bool(c % 3 == 0), bool(c % 4 < 2),
                  ("hard-ids",), deep=True)
    for c in range(max(4, n_cases // 8)):
        spec = wide_spec(rng, 3, rng.choice([64, 100]), c % 4)
        ids = spec["samp"]
        bad = rng.choice(core.tricky_unknown_ids(ids))
        impl, mods = impls[c % len(impls)]
        do_filter(ctx, batch, impl, mods, {"spec": spec, "route": "csr"}, "sample",
                  {"kind": "ids", "ids": [ids[70 % len(ids)], bad, ids[3]]}, ["list", "tuple", "array"][c % 3], False,
                  bool(c % 2), ("wide", "unknown-id"))
    # (g) predicates that are decorated functions or that filter other tables themselves while the outer filter
    # runs; callers that turn warnings into errors; axes annotated for SOME IDs only by add_metadata
    for c in range(n_cases):
        spec = core.gen_spec(rng, max_n=4, max_m=4, min_n=2, min_m=2, classes=("smallcount", "count"), alphabet="ascii")
        spec = vary_spec(spec, c)
        axis = rng.choice(["observation", "sample"])
        ids = spec["obs"] if axis == "observation" else spec["samp"]
        recipe = {"spec": spec, "route": rng.choice(core.ROUTES + ["perm_sort"])}
        if c % 3 == 0 and spec["omd" if axis == "observation" else "smd"] is None:
            recipe["hist"] = [["add_md", axis, [[i, {"added": "x%d" % j}] for j, i in enumerate(ids) if j % 2 == 0]]]
        impl, mods = impls[c % len(impls)]
        opts = [{"predstyle": "decorated"}, {"predstyle": "reentrant"}, {"warnings": "error"},
                {"predstyle": "reentrant", "shared": True}][c % 4]
        if c % 2:
            keep, form = pred_desc(dict(rng.choice(VEC_PREDS[:8]))), "pred"
        else:
            keep, form = {"kind": "ids", "ids": [i for i in ids if rng.random() < 0.6][::-1]}, \
                rng.choice(["list", "array", "tuple"])
            opts = {"warnings": "error"} if c % 4 == 0 else None
        do_filter(ctx, batch, impl, mods, recipe, axis, keep, form, bool(c % 3 == 0), bool(c % 2 == 0),
                  ("styles",), deep=True, opts=opts)
        if c % 4 == 1:
            do_remove_empty(ctx, batch, impl, mods, recipe, rng.choice([axis, "whole"]), bool(c % 8 == 1), ("styles",))
            do_head(ctx, batch, impl, mods, recipe, rng.randint(1, 3), rng.randint(1, 3), ("styles",))
    # (f) ONE predicate function object used on a series of different tables and axes
    for d in ({"name": "wsum_gt", "k": "3"}, {"name": "first_nz"}, {"name": "md_eq", "key": "grp", "val": "\"a\""}):
        for c in range(max(6, n_cases // 6)):
            spec = core.gen_spec(rng, max_n=4, max_m=4, min_n=1, min_m=1, classes=("smallcount",), alphabet="ascii")
            impl, mods = impls[c % len(impls)]
            do_filter(ctx, batch, impl, mods, {"spec": spec, "route": rng.choice(core.ROUTES)},
                      ["observation", "sample"][c % 2], pred_desc(d), "pred", bool(c % 3 == 0), bool(c % 2),
                      ("shared-predicate",), opts={"shared": True})


def degenerate_cases(ctx, batch, impls, shard=(0, 1)):
    """tables with ONE EMPTY AXIS (0 x k, k x 0) obtained by every route — constructed with an empty ID list,
    filtered to nothing by an empty collection or by a predicate nothing passes (in place and copying),
    remove_empty of an all-zero table — then head(n, m) with sizes below, equal to and above the populated axis,
    filter (IDs in non-axis order, predicates, invert) and remove_empty on the populated and on the empty axis"""
    full = vary_spec(small_spec([[1, 2, 0, 4, 5, 0, 7], [0, 0, 0, 0, 0, 0, 0], [3, 0, 1, 0, 2, 0, 6],
                                 [0, 9, 0, 0, 0, 0, 8]], 1), 1)          # partly annotated axes
    plain = small_spec([[1, 0], [0, 2], [3, 4]], 0)
    zero = small_spec([[0, 0, 0], [0, 0, 0]], 1)
    k = 0
    for spec in (full, plain, zero):
        for empty_axis in ("observation", "sample"):
            pop_axis = "sample" if empty_axis == "observation" else "observation"
            pop_ids = spec["samp"] if empty_axis == "observation" else spec["obs"]
            cons = dict(spec)
            if empty_axis == "observation":
                cons.update(obs=[], rows=[], omd=None)
            else:
                cons.update(samp=[], rows=[[] for _ in spec["obs"]], smd=None)
            routes = [("constructed", {"spec": cons, "route": "dense"}),
                      ("constructed-csr", {"spec": cons, "route": "csr"}),
                      ("filter-none-inplace", {"spec": spec, "route": "dense", "hist": [["prefilter", empty_axis, []]]}),
                      ("filter-none-copy", {"spec": spec, "route": "csc", "hist": [["prefilter_copy", empty_axis, []]]}),
                      ("pred-none-inplace", {"spec": spec, "route": "perm_sort",
                                             "hist": [["prefilter_pred", empty_axis, True, False]]}),
                      ("pred-none-copy", {"spec": spec, "route": "dense",
                                          "hist": [["prefilter_pred", empty_axis, False, False]]})]
            if spec is zero:
                routes += [("remove-empty-inplace", {"spec": spec, "route": "dense",
                                                     "hist": [["remove_empty", empty_axis, True]]}),
                           ("remove-empty-copy", {"spec": spec, "route": "csr",
                                                  "hist": [["remove_empty", empty_axis, False]]})]
            kk = len(pop_ids)
            sizes = sorted(set([1, max(1, kk - 1), kk, kk + 2]))
            for rname, recipe in routes:
                k += 1
                if k % shard[1] != shard[0]:
                    continue
                if k % 2:
                    recipe = dict(recipe, poke=k)
                tags = ("degenerate", "empty=" + empty_axis, "route=" + rname)
                ctx.count("degenerate:route=%s" % rname)
                impl, mods = impls[k % len(impls)]
                for j, sz in enumerate(sizes):
                    for other in (1, 3):
                        n, m = (other, sz) if empty_axis == "observation" else (sz, other)
                        do_head(ctx, batch, impl, mods, recipe, n, m, tags,
                                opts={"style": "kw"} if (j + other) % 2 else None)
                for inplace in (False, True):
                    F = lambda ax, keep, form, inv=False: do_filter(ctx, batch, impl, mods, recipe, ax, keep, form, inv,
                                                                    inplace, tags, deep=True)
                    F(pop_axis, {"kind": "ids", "ids": [pop_ids[-1], pop_ids[0]]}, "list")
                    F(pop_axis, {"kind": "ids", "ids": pop_ids[1:]}, "array", True)
                    F(pop_axis, pred_desc({"name": "id_in", "ids": pop_ids[:2]}), "pred")
                    F(pop_axis, pred_desc({"name": "sum_gt", "k": "-1"}), "pred", True)
                    F(pop_axis, {"kind": "ids", "ids": [pop_ids[0], pop_ids[0] + "x"]}, "tuple")
                    F(empty_axis, {"kind": "ids", "ids": []}, "list")
                    F(empty_axis, pred_desc({"name": "true"}), "pred")
                    F(empty_axis, {"kind": "ids", "ids": [pop_ids[0]]}, "list")      # an ID of the other axis: unknown
                    for ax in (pop_axis, empty_axis, "whole"):
                        do_remove_empty(ctx, batch, impl, mods, recipe, ax, inplace, tags)


# ----------------------------------------------------------------------------- fixed corpus (repaired defects first)
def corpus(ctx, batch, impls):
    # 7ace4ade: predicate filter after sort_order(['s3','s1','s2']) was handed [0,1,2]-like vectors
    spec1 = {"obs": ["o1", "o2", "o3"], "samp": ["s1", "s2", "s3"],
             "rows": [[1.0, 2.0, 3.0], [0.0, 1.0, 0.0], [4.0, 0.0, 5.0]], "omd": None, "smd": None, "type": None}
    rec1 = {"spec": spec1, "route": "dense", "hist": [["sort", "sample", ["s3", "s1", "s2"]]]}
    # 567006f7: remove_empty dropped the non-empty vectors [-1,0,1] and [-3,0,1]
    spec2 = {"obs": ["a", "b", "c", "d"], "samp": ["x", "y", "z"],
             "rows": [[-1.0, 0.0, 1.0], [0.0, 0.0, 0.0], [2.0, 0.0, 0.0], [-3.0, 0.0, 1.0]],
             "omd": None, "smd": None, "type": None}
    rec2 = {"spec": spec2, "route": "dense", "hist": []}
    for impl, mods in impls:
        for d in ({"name": "true"}, {"name": "first_nz"}, {"name": "wsum_gt", "k": "8"}):
            for invert in (False, True):
                do_filter(ctx, batch, impl, mods, rec1, "observation", pred_desc(d), "pred", invert, False,
                          ("corpus", "fixed-7ace4ade"))
        do_filter(ctx, batch, impl, mods, rec1, "sample", pred_desc({"name": "sum_gt", "k": "4"}), "pred", False, True,
                  ("corpus", "fixed-7ace4ade"))
        for ax in ("observation", "sample", "whole"):
            for inplace in (False, True):
                do_remove_empty(ctx, batch, impl, mods, rec2, ax, inplace, ("corpus", "fixed-567006f7"))
    batch.flush()


def run(ctx):
    try:
        _run(ctx)
    finally:
        # whatever happens, no forked shard and no shard journal is left behind
        for sh in list(Shards.live):
            sh.abandon()


def _run(ctx):
    impls = [(n, m) for n, m in kernels.kernel_impls() if m is not None]
    for n, m in kernels.kernel_impls():
        if m is None:
            ctx.notes.append("kernel implementation unavailable: %s" % n)
            ctx.diverge({"impl": n}, "the .pyx sources could not be rendered", ["impl=pyx-rendered"])
    ctx.rule = ("(a) kernel: _filter of both kernel implementations on flat arrays from every WF layout family "
                "(sorted/reversed/shuffled indices, stored zeros, empty vectors, empty matrix) x ID lists / named "
                "predicates, output arrays compared exactly with the Lean model; (b) table: every grid over {0,1,2} "
                "of the tier's shapes x axis x every subset x invert, with inplace x container form "
                "(list,set,tuple,array,predicate) x kernel implementation x receiver route rotating evenly (full "
                "product for the smallest grids); vector/metadata predicates with call logs; random larger tables "
                "after sort_order/align_to/concat/transpose/filter histories; unknown IDs; remove_empty over "
                "{-1,0,1} grids; head; wide/tall receivers (64-150 IDs on an axis) with small ID collections in non-axis "
                "order; two-step chains (filter dropping a non-trailing ID, then filter / remove_empty / head / request "
                "naming a removed ID on the result); the `biom head` command on JSON/HDF5/TSV files; after every table-level "
                "step the table's own index(id) (always), data(id) (chains, wide, every 8th case) and exists(removed id) "
                "are observed; hardening stream: read -> in-place change keeping the objects (transform, update_ids, metadata "
                "mutation/deletion) -> filter judged on current content; families of live tables derived from one source "
                "around an in-place filter (bystanders re-observed with their own lookups); error profiles "
                "empty=raise/warn/call in force during the call; every spelling of the flags (int, numpy bool, "
                "positional), head defaults/keywords, unknown axis names; look-alike ID texts and "
                "core.tricky_unknown_ids; one predicate function object re-used across tables; receivers left in a "
                "random internal layout by core.poke_layout (about a third of all cases); tables with one empty axis by "
                "every route x head sizes below/equal/above the populated axis, filter and remove_empty on both axes; "
                "every stream also runs on partly annotated axes and on tables whose axes share names (vary_spec); "
                "NFC/NFD twin IDs, nasty texts as IDs and metadata values, binary64 edge values, 520-600-ID axes, "
                "decorated / re-entrant predicates, warnings as errors, argument collection untouched; None / falsy metadata "
                "values, heterogeneous key sets, predicates reading md[key] (their write of key: None is accounted "
                "for). non-trivial = table with >= 2 cells / matrix with >= 1 vector; "
                "distinct = distinct (receiver recipe, request, implementation)")
    ctx.trusted = ["scipy tocsr()/tocsc()/sort_indices()/transpose/toarray are external: the layout handed to the "
                   "model is read from scipy, sort_indices is modelled by its contract (sortIndices)",
                   "errcheck(table) after filter is C20's concern (default profile: an empty result is accepted)"]
    import os
    wi, wn = ctx.worker
    first = wi == 0
    batch = Batch(ctx)
    corpus(ctx, batch, impls)
    if ctx.quick():
        pool = int(os.environ.get("C08_POOL", "4")) if wn == 1 else 0
        grids = grid_list(ctx, [(1, 1), (1, 2), (2, 1), (1, 3), (3, 1), (2, 2), (2, 3), (3, 2)]) + \
            [(10000 + i, g) for i, g in grid_list(ctx, [(3, 3)], sample=max(1, 250 // wn))]
        grids = [(k, g) for k, g in grids if k >= 10000 or ctx.mine(k)]
        shards = Shards(ctx, batch, impls, grids, 2, pool)
        kernel_cases(ctx, batch, impls, 500 // wn, fixed=first)
        unknown_id_cases(ctx, batch, impls, 150 // wn, fixed=first)
        remove_empty_cases(ctx, batch, impls, [(1, 3), (2, 2), (2, 3), (3, 2)], 150 // wn)
        if first:
            head_cases(ctx, batch, impls)
            cli_head_cases(ctx, batch)
        chain_cases(ctx, batch, impls, ctx.worker)
        wide_cases(ctx, batch, impls, max(40, 160 // wn))
        hardening_cases(ctx, batch, impls, max(20, 120 // wn))
        degenerate_cases(ctx, batch, impls, ctx.worker)
        random_cases(ctx, batch, impls, 1200 // wn, 6)
    else:
        # ./check shards the thorough tier over WORKERS processes: grid number k belongs to worker k mod n
        pool = 0
        grids = [(k, g) for k, g in grid_list(ctx, [(1, 1), (1, 2), (2, 1), (1, 3), (3, 1), (2, 2), (2, 3), (3, 2),
                                                     (3, 3)]) if ctx.mine(k)]
        shards = Shards(ctx, batch, impls, grids, 4, pool)
        kernel_cases(ctx, batch, impls, 6000 // wn, fixed=first)
        unknown_id_cases(ctx, batch, impls, 1500 // wn, fixed=first)
        remove_empty_cases(ctx, batch, impls, [(1, 3), (2, 2), (2, 3), (3, 2), (3, 3)], 2500 // wn)
        if first:
            head_cases(ctx, batch, impls)
            cli_head_cases(ctx, batch)
        chain_cases(ctx, batch, impls, ctx.worker)
        wide_cases(ctx, batch, impls, 1200 // wn)
        hardening_cases(ctx, batch, impls, 1200 // wn)
        degenerate_cases(ctx, batch, impls, ctx.worker)
        random_cases(ctx, batch, impls, 12000 // wn, 8)
    batch.flush()
    shards.collect()
    ctx.notes.append("exhaustive part of worker %d/%d: %d grids%s" % (
        wi, wn, len(grids), " over %d forked processes" % pool if pool else ""))
    ctx.exhaustive = True


WORKERS = 12


def replay(ctx, rec):
    case = rec["case"]
    impls = dict((n, m) for n, m in kernels.kernel_impls() if m is not None)
    impl = case.get("impl", "compiled")
    mods = impls.get(impl)
    batch = Batch(ctx, size=1)
    k = case["kind"]
    if k == "filter":
        do_filter(ctx, batch, impl, mods, case["recipe"], case["axis"], case["keep"], case["form"], case["invert"],
                  case["inplace"], ("replay",), deep=True, opts=case.get("opts"))
    elif k == "remove_empty":
        do_remove_empty(ctx, batch, impl, mods, case["recipe"], case["axis"], case["inplace"], ("replay",),
                        opts=case.get("opts"))
    elif k == "head":
        do_head(ctx, batch, impl, mods, case["recipe"], case["n"], case["m"], ("replay",), opts=case.get("opts"))
    elif k == "refused":
        do_refused(ctx, batch, impl, mods, case["recipe"], case["what"], ("replay",))
    elif k == "cli_head":
        import shutil
        import tempfile
        os.makedirs("/tmp/C08", exist_ok=True)
        tmpdir = tempfile.mkdtemp(dir="/tmp/C08")
        try:
            do_cli_head(ctx, batch, case["spec"], case["fmt"], case["n"], case["m"], tmpdir, ("replay",))
        finally:
            shutil.rmtree(tmpdir, ignore_errors=True)
    elif k == "kernel":
        do_kernel(ctx, batch, impl, mods, case["flat"], case["ids"], case["md"], case["keep"], case["form"],
                  case["invert"], case["axis"], ("replay",))
    batch.flush()
