"""C02 — the BIOM 1.0 (JSON) writer emits well-formed JSON that reads back exactly.

Per case: build a real Table (every `core.build` route, optional prior operations), call the real
`to_json` twice (returned string; streamed into a real file through `direct_io`), lex both texts with
the small tokenizer below, read the text back through every reader (load_table plain + gzip,
parse_table on a handle and on a list of lines, Table.from_json on both texts) and hand everything to
the Lean driver: Lean evaluates `holds` on the token streams and the readers' results, parses the raw
characters with its own JSON parser, and compares the token streams with the model's `toJsonToks`.
"""
import datetime
import gzip
import io
import json
import os
import re

from . import core

TMP = "/tmp/c02"


# ----------------------------------------------------------------------------- encodings
def to_j(v):
    """python value -> the driver's encoding of a JSON value; this is the recorded contract of
    `dumps` (= json.dumps with NpEncoder): which JSON value a metadata value denotes"""
    import numpy as np
    if v is None:
        return None
    if isinstance(v, (bool, np.bool_)):
        return bool(v)
    if isinstance(v, (int, np.integer)):
        return {"i": str(int(v))}
    if isinstance(v, (float, np.floating)):
        return {"n": core.frac(float(v))}
    if isinstance(v, str):
        return {"s": str(v)}
    if isinstance(v, np.ndarray):
        return to_j(v.tolist())
    if isinstance(v, (list, tuple)):
        return {"a": [to_j(x) for x in v]}
    if isinstance(v, dict):
        return {"o": [[str(k), to_j(x)] for k, x in v.items()]}
    raise TypeError("no JSON value for %r" % (v,))


class LexError(Exception):
    pass


_WS = re.compile(r"[ \t\n\r]*")
_STR = re.compile(r'"(?:[^"\\\x00-\x1f]|\\["\\/bfnrt]|\\u[0-9a-fA-F]{4})*"')
_NUM = re.compile(r"-?(?:0|[1-9][0-9]*)(\.[0-9]+)?([eE][+-]?[0-9]+)?")
_PUNCT = "{}[],:"


def tokenize(text):
    """JSON text -> token list (driver encoding).  Number literals without fraction/exponent are
    integer tokens, the others carry the exact rational of `float(literal)`."""
    out = []
    i, n = 0, len(text)
    while True:
        i = _WS.match(text, i).end()
        if i >= n:
            return out
        c = text[i]
        if c in _PUNCT:
            out.append(c)
            i += 1
            continue
        if c == '"':
            m = _STR.match(text, i)
            if not m:
                raise LexError("bad string at %d: %r" % (i, text[i:i + 30]))
            out.append(["s", json.loads(m.group(0))])
            i = m.end()
            continue
        for lit in ("null", "true", "false"):
            if text.startswith(lit, i):
                out.append(lit)
                i += len(lit)
                break
        else:
            m = _NUM.match(text, i)
            if not m or m.end() == i:
                raise LexError("bad token at %d: %r" % (i, text[i:i + 30]))
            if m.group(1) is None and m.group(2) is None:
                out.append(["i", m.group(0)])
            else:
                f = float(m.group(0))
                if f != f or f in (float("inf"), float("-inf")):
                    raise LexError("number literal out of range at %d: %r" % (i, m.group(0)))
                out.append(["n", core.frac(f)])
            i = m.end()
        if i < n and text[i] not in _PUNCT + " \t\n\r":
            raise LexError("token not delimited at %d: %r" % (i, text[max(0, i - 10):i + 20]))


def md_obs(md, n):
    if md is None:
        return [None] * n
    return [to_j(m) for m in md]


def table_input(t):
    """the table as the property sees it (public observations of the real Table)"""
    import numpy as np
    n, m = len(t.ids(axis="observation")), len(t.ids())
    dense = t.matrix_data.toarray() if n * m > 0 else np.zeros((n, m))
    return {
        "table_id": str(t.table_id), "type": t.type,
        "obs": [str(x) for x in t.ids(axis="observation")], "samp": [str(x) for x in t.ids()],
        "omd": md_obs(t.metadata(axis="observation"), n), "smd": md_obs(t.metadata(axis="sample"), m),
        "rows": [[core.frac(x) for x in dense[i]] for i in range(n)],
    }


def read_obs(name, f):
    try:
        t = f()
    except Exception as e:  # noqa
        return {"name": name, "error": core.err_name(e), "message": "%s: %s" % (type(e).__name__, str(e)[:200])}
    o = table_input(t)
    o["name"] = name
    o["generated_by"] = t.generated_by
    cd = t.create_date
    o["date"] = cd.isoformat() if isinstance(cd, datetime.datetime) else (None if cd is None else str(cd))
    del o["table_id"]
    return o


# ----------------------------------------------------------------------------- generators
NASTY_CHARS = ['"', "\\", "/", "\x00", "\x01", "\x08", "\t", "\n", "\r", "\x1f", "\x7f", " ", "'", "{", "}", "[", "]",
               ",", ":", "é", "ß", "日", "本", "́", " ", " ", "﻿", "퟿", "", "￿",
               "\U0001F600", "\U00010000", "\U0010FFFF", "%", "%s", "%d", "{}", "{0}", "\\u0041", "\\n", "\\\"", "a", "Z", "0"]
NASTY_STRINGS = ['a"b', "back\\slash", 'q"\\"q', "\\", '"', '""', "\\\\", "tab\there", "nl\nhere", "nul\x00mid",
                 "\x1f", "emoji\U0001F600", "\U0010FFFF", "%s", "%(x)s", "{0}", "{}", "null", "true", "1e5", "[1,2]",
                 '{"id": "x"}', "é日本", "end\\", '\\"', "\\u0022", "</script>", " ", "a,b", "a:b", " lead", "trail "]


# line boundaries of str.splitlines other than LF/CR, BOM, unpaired surrogates (legal in a Python str, e.g. from
# surrogateescape), canonically equivalent spellings
LINE_BREAKERS = ["\u2028", "\u2029", "\u0085", "\x0b", "\x0c", "\x1c", "\x1d", "\x1e"]
LONE_SURROGATES = ["\udcff", "\ud800", "\udc00", "\udbff", "\ud83d"]
SURR_LO, SURR_HI, SURR_PUA = 0xD800, 0xDFFF, 0xF0000


def gen_str(rng, nonempty=False):
    c = rng.random()
    if c < 0.06:
        return rng.choice(core.NASTY_TEXTS)
    if c < 0.10:
        return rng.choice(["line", "", "x"]) + rng.choice(LINE_BREAKERS) + rng.choice(["sep", "", "\n"])
    if c < 0.13:
        return rng.choice(["", "a", "\U0001F600"]) + rng.choice(LONE_SURROGATES) + rng.choice(["", "b", "x\udc00"])   # never a high next to a low one (that is a pair)
    if c < 0.16:
        return rng.choice(rng.choice(core.NORMALISATION_PAIRS))
    if c < 0.3:
        return rng.choice(NASTY_STRINGS)
    if c < 0.4:
        return rng.choice(["OTU table", "sample one", "k__Bacteria; p__Firmicutes", "x"])
    n = rng.randint(1 if nonempty else 0, 6)
    if c < 0.9:
        return "".join(rng.choice(NASTY_CHARS) for _ in range(n))
    # arbitrary scalar values
    out = []
    for _ in range(n):
        while True:
            cp = rng.randrange(0x110000)
            if not 0xD800 <= cp <= 0xDFFF and not SURR_PUA <= cp < SURR_PUA + 0x800:
                break
        out.append(chr(cp))
    return "".join(out)


def gen_ids(rng, n, prefix):
    ids, seen = [], set()
    if n >= 2 and rng.random() < 0.12:
        # two canonically equivalent spellings are two DISTINCT IDs
        ids = core.twin_ids(rng, 1)[:n]
        seen = set(ids)
    while len(ids) < n:
        if rng.random() < 0.35:
            s = "%s%d" % (prefix, len(ids))
        else:
            s = gen_str(rng, nonempty=True)
            if rng.random() < 0.5:
                s = prefix + s
        if rng.random() < 0.1:
            s += rng.choice(["\n", " ", "\t", "\r\n", "\u00e9\u65e5\U0001F600"])   # trailing newline / blank; UTF-8 longer than text
        s = s.rstrip("\x00") or (prefix + "z")     # numpy text arrays drop trailing NULs
        if s not in seen:
            seen.add(s)
            ids.append(s)
    return ids


def gen_float(rng):
    c = rng.random()
    if c < 0.35:
        return rng.choice([1e-7, 0.1234567891, 5e-324, 1.7976931348623157e308, 1e300, -1e-7, 0.1, 1 / 3.0, 2.5, -0.0, 1e16,
                           2.225073858507201e-308, 1e-310, -4.9e-324, 16777217.0, 2.0 ** 24 + 3, 2.0 ** 53 + 2, 4294967297.0, 0.3,
                           1e22, 1e23, 123456.789, 2.2250738585072014e-308, 9007199254740993.0, 1e-5, 0.0001, 100.0])
    return core.gen_value(rng, rng.choice(core.VALUE_CLASSES))


def gen_md_value(rng, depth=0):
    import numpy as np
    c = rng.random()
    if depth >= 3:
        c = c * 0.72
    if c < 0.08:
        return None
    if c < 0.16:
        return rng.choice([True, False])
    if c < 0.28:
        return rng.choice([0, 1, -1, 7, 2 ** 31, -2 ** 63, 2 ** 70, rng.randint(-1000, 1000)])
    if c < 0.40:
        return gen_float(rng)
    if c < 0.58:
        return gen_str(rng)
    if c < 0.72:
        k = rng.random()
        if k < 0.1:
            return np.bool_(rng.random() < 0.5)
        if k < 0.2:
            return np.int64(rng.randint(-5, 5))
        if k < 0.35:
            return np.int32(rng.randint(-5, 5))
        if k < 0.45:
            return np.uint8(rng.randint(0, 255))
        if k < 0.65:
            return np.float64(gen_float(rng))
        if k < 0.8:
            return np.float32(rng.choice([0.1, 1.5, 3.0, 1e-7, 16777217.0]))
        if k < 0.9:
            return np.array([rng.randint(0, 9) for _ in range(rng.randint(0, 3))])
        return np.array([[0.5, float(rng.randint(0, 3))]])
    if c < 0.88:
        xs = [gen_md_value(rng, depth + 1) for _ in range(rng.randint(0, 3))]
        return tuple(xs) if rng.random() < 0.3 else xs
    return {gen_str(rng): gen_md_value(rng, depth + 1) for _ in range(rng.randint(0, 3))}


def gen_md(rng, n):
    c = rng.random()
    if c < 0.3 or n == 0:
        return None
    if c < 0.45:
        return core.gen_md(rng, ["x"] * n, kind=rng.choice(["text", "num", "tax", "mixed"]))
    if c < 0.55:
        # values that are equal in Python and different as JSON values, on neighbouring IDs, same keys
        twins = [True, 1, 1.0, False, 0, 0.0, 2 ** 53, float(2 ** 53), "1", None, [1], [1.0], [True]]
        k1, k2 = rng.choice(["paired", "id", "metadata"]), rng.choice(["n", "rows", "shape"])
        return [{k1: rng.choice(twins), k2: rng.choice(twins)} for _ in range(n)]
    md = []
    keys = [gen_str(rng) for _ in range(rng.randint(1, 3))]
    if rng.random() < 0.2:
        # categories named like members of the document
        keys = rng.sample(["id", "metadata", "rows", "columns", "data", "shape", "type", "date", "format", "S0", "O0"], rng.randint(1, 3))
    for _ in range(n):
        if rng.random() < 0.12:
            md.append(None if rng.random() < 0.5 else {})
        else:
            md.append({k: gen_md_value(rng) for k in keys if rng.random() < 0.9})
    return md


def gen_rows(rng, n, m):
    style = rng.random()
    if style < 0.05:
        return [[0.0] * m for _ in range(n)]
    if style < 0.16:
        return [[gen_float(rng) or 1.0 for _ in range(m)] for _ in range(n)]
    density = rng.choice([0.7, 0.9]) if n * m <= 4 else rng.choice([0.1, 0.3, 0.5, 0.8])
    rows = [[(gen_float(rng) if rng.random() < density else 0.0) for _ in range(m)] for _ in range(n)]
    # all-zero rows at chosen places: first / middle / last / several in a row
    if n > 2 or (n == 2 and rng.random() < 0.4):
        for _ in range(rng.choice([0, 1, 1, 2]) if n > 2 else 1):
            rows[rng.choice([0, n // 2, n - 1, rng.randrange(n)])] = [0.0] * m
    if m > 1 and rng.random() < 0.15:
        # a row whose non-zero values cancel exactly (sum 0, not empty)
        v = rng.choice([2.5, 1e-7, 3.0, 1e19, 0.1])
        r = [0.0] * m
        a, b = rng.sample(range(m), 2)
        r[a], r[b] = v, -v
        rows[rng.randrange(n)] = r
    if m > 1 and rng.random() < 0.3:
        j = rng.choice([0, m - 1, rng.randrange(m)])
        for r in rows:
            r[j] = 0.0
    return rows


def gen_spec(rng, max_n, max_m):
    n = rng.choice([1, 1, 2, 3, rng.randint(1, max_n), rng.randint(1, max_n)])
    m = rng.choice([1, 1, 2, 3, rng.randint(1, max_m), rng.randint(1, max_m)])
    spec = {"obs": gen_ids(rng, n, "O"), "samp": gen_ids(rng, m, "S"), "rows": gen_rows(rng, n, m),
            "omd": gen_md(rng, n), "smd": gen_md(rng, m)}
    if rng.random() < 0.1:
        # the same names on both axes
        k = min(n, m)
        spec["samp"][:k] = spec["obs"][:k]
        if len(set(spec["samp"])) != m:
            spec["samp"] = spec["obs"][:k] + ["S_%d" % j for j in range(m - k)]
    c = rng.random()
    spec["type"] = None if c < 0.25 else (rng.choice(core.TYPES[1:]) if c < 0.6 else gen_str(rng))
    c = rng.random()
    if c < 0.7:
        spec["table_id"] = None if c < 0.2 else (gen_str(rng) if c < 0.6 else rng.choice([5, 2.5, "a\"b\\c"]))
    return spec


def gen_date(rng):
    c = rng.random()
    if c < 0.2:
        return datetime.datetime(2020, 1, 2, 3, 4, 5)
    if c < 0.3:
        return datetime.datetime(1, 1, 1)
    if c < 0.4:
        return datetime.datetime(9999, 12, 31, 23, 59, 59, 999999)
    if c < 0.55:
        tz = datetime.timezone(datetime.timedelta(minutes=rng.choice([0, 60, -330, 345])))
        return datetime.datetime(2021, rng.randint(1, 12), rng.randint(1, 28), rng.randint(0, 23), 5, 6, rng.randint(0, 999999), tz)
    return datetime.datetime(rng.randint(1990, 2030), rng.randint(1, 12), rng.randint(1, 28), rng.randint(0, 23),
                             rng.randint(0, 59), rng.randint(0, 59), rng.randint(0, 999999))


PRIOR_OPS = ["none", "none", "none", "sort", "transpose2", "filter_keep", "copy", "norm_back", "subsample_all", "update_md"]


def apply_prior(rng, t, op):
    """operations that came before (histories); the table that results is the input of the property"""
    if op == "sort":
        return t.sort_order(list(reversed(t.ids()))).sort_order(list(reversed(t.ids(axis="observation"))), axis="observation")
    if op == "transpose2":
        t2 = t.transpose().transpose()
        t2.type, t2.table_id = t.type, t.table_id
        return t2
    if op == "filter_keep":
        keep = list(t.ids())
        if len(keep) > 1:
            keep = keep[:-1]
        t2 = t.filter(keep, inplace=False)
        t2.table_id = t.table_id
        return t2
    if op == "copy":
        return t.copy()
    if op == "norm_back":
        # multiply by two and halve again: exact in binary64 unless the doubling overflows
        t2 = t.transform(lambda v, i, m: v * 0.5, inplace=False)
        t2.table_id = t.table_id
        return t2
    if op == "subsample_all":
        # leaves explicit zeros / re-built matrices behind on count tables
        import numpy as np
        d = t.matrix_data
        if d.nnz and np.all(d.data == np.floor(d.data)) and np.all(d.data > 0) and d.data.max() < 1000:
            n = int(min(t.sum(axis="sample")))
            if n >= 1:
                t2 = t.subsample(n)
                t2.table_id = t.table_id
                return t2
        return t
    if op == "update_md":
        t2 = t.copy()
        t2.add_metadata({t2.ids()[0]: {"added\"key": ["x", 1, None]}}, axis="sample")
        return t2
    return t


def large_table(rng, n, m, density, kind):
    """n x m table whose JSON data block is far larger than any plausible IO buffer"""
    import numpy as np
    from biom import Table
    arr = np.zeros((n, m))
    for i in range(n):
        if rng.random() < 0.03:
            continue                                    # an all-zero row now and then
        for j in range(m):
            if rng.random() < density:
                if kind == "int":
                    arr[i, j] = float(rng.randint(1, 5000))
                elif kind == "frac":
                    arr[i, j] = rng.randint(1, 400000) / 64.0
                else:
                    arr[i, j] = gen_float(rng) or 1.0
    omd = [{"taxonomy": ["k__A", "p__%d" % (i % 7)]} for i in range(n)] if kind != "int" else None
    return Table(arr, ["O%d" % i for i in range(n)], ["S\"%d" % j for j in range(m)], omd, None, type="OTU table")


INPLACE_EDITS = ["del_md_subset_obs", "del_md_subset_samp", "del_md_subset_whole", "del_md_all_obs", "del_md_all_whole",
                 "add_md_existing_obs", "add_md_existing_samp", "mutate_dict_obs", "mutate_dict_samp", "mutate_nested_obs",
                 "replace_value_samp", "transform_inplace", "filter_inplace", "update_ids_inplace", "rotate_ids_inplace", "set_type_id"]


def _axis_keys(t, axis):
    md = t.metadata(axis=axis)
    if md is None:
        return []
    keys = []
    for m in md:
        for k in m:
            if k not in keys:
                keys.append(k)
    return keys


def apply_inplace_edit(rng, t, edit):
    """edit the SAME table object in place (write -> edit -> write-again histories); returns False if not applicable"""
    if edit.startswith("del_md_subset"):
        axis = {"obs": "observation", "samp": "sample", "whole": "whole"}[edit.rsplit("_", 1)[1]]
        keys = _axis_keys(t, "observation") if axis != "sample" else []
        keys += [k for k in (_axis_keys(t, "sample") if axis != "observation" else []) if k not in keys]
        if len(keys) < 1:
            return False
        k = max(1, len(keys) // 2)
        t.del_metadata(keys=rng.sample(keys, k), axis=axis)
        return True
    if edit == "del_md_all_obs":
        if t.metadata(axis="observation") is None:
            return False
        t.del_metadata(axis="observation")
        return True
    if edit == "del_md_all_whole":
        if t.metadata(axis="observation") is None and t.metadata(axis="sample") is None:
            return False
        t.del_metadata()
        return True
    if edit.startswith("add_md_existing"):
        axis = "observation" if edit.endswith("obs") else "sample"
        ids = list(t.ids(axis=axis))
        t.add_metadata({i: {"added\"key": [k, "x", None], "n": k + 0.5} for k, i in enumerate(ids[: max(1, len(ids) // 2)])},
                       axis=axis)
        return True
    if edit.startswith("mutate_dict") or edit in ("mutate_nested_obs", "replace_value_samp"):
        axis = "observation" if edit.endswith("obs") else "sample"
        if t.metadata(axis=axis) is None:
            return False
        ids = list(t.ids(axis=axis))
        i = rng.choice(ids)
        if edit.startswith("mutate_dict"):
            if rng.random() < 0.5:
                t.metadata(i, axis)["confidence"] = rng.choice([0.99, 1e-7, None, "q\"q", [1, [2]]])
            else:
                t.metadata(axis=axis)[ids.index(i)]["mut\\key"] = {"v": [1.5, None]}
            return True
        m = t.metadata(i, axis)
        if edit == "mutate_nested_obs":
            for k, v in m.items():
                if isinstance(v, list):
                    v.append("appended")
                    return True
            return False
        for k in list(m):
            m[k] = ["replaced", 7]
            return True
        return False
    if edit == "transform_inplace":
        t.transform(lambda v, i, m: v * 0.5, inplace=True)
        return True
    if edit == "filter_inplace":
        if len(t.ids()) < 2:
            return False
        t.filter(list(t.ids())[1:], inplace=True)
        return True
    if edit == "update_ids_inplace":
        axis = rng.choice(["observation", "sample"])
        longest = max(len(str(i)) for i in t.ids(axis=axis))
        # the new IDs are longer than every existing one (fixed-width ID arrays)
        t.update_ids({i: str(i) + "_r\"" + "L" * (longest + 3) for i in t.ids(axis=axis)}, axis=axis, inplace=True)
        return True
    if edit == "rotate_ids_inplace":
        # every ID moves to its neighbour's place: old and new ID sets are equal, only the assignment changes
        axis = rng.choice(["observation", "sample"])
        ids = [str(i) for i in t.ids(axis=axis)]
        if len(ids) < 2:
            return False
        t.update_ids(dict(zip(ids, ids[1:] + ids[:1])), axis=axis, inplace=True)
        return True
    if edit == "set_type_id":
        t.type = "Taxon table" if t.type != "Taxon table" else None
        t.table_id = "changed\\id"
        return True
    raise ValueError(edit)


# ----------------------------------------------------------------------------- one case
_SURR_RE = re.compile("[\ud800-\udfff]")
_XP_HITS = [0]


def xp(v):
    """transport encoding towards the driver: Lean strings hold Unicode scalar values only, so an unpaired surrogate
    travels as a private-use character (U+F0000 + offset; the generators never produce that block themselves)"""
    if isinstance(v, str):
        if _SURR_RE.search(v):
            _XP_HITS[0] += 1
            return _SURR_RE.sub(lambda m: chr(SURR_PUA + ord(m.group(0)) - SURR_LO), v)
        return v
    if isinstance(v, list):
        return [xp(x) for x in v]
    if isinstance(v, dict):
        return {k: xp(x) for k, x in v.items()}
    return v


def unxp(v):
    if isinstance(v, str):
        return "".join(chr(SURR_LO + ord(ch) - SURR_PUA) if SURR_PUA <= ord(ch) < SURR_PUA + 0x800 else ch for ch in v)
    if isinstance(v, list):
        return [unxp(x) for x in v]
    if isinstance(v, dict):
        return {k: unxp(x) for k, x in v.items()}
    return v


def has_surrogate(v):
    return xp(v) != v


_SHARED_STREAM = io.StringIO()       # one stream object re-used by many writes


class MinimalWriter:
    """a `direct_io` target that has nothing but `write`"""

    def __init__(self):
        self.parts = []

    def write(self, s):
        self.parts.append(s)


FIXED_NOW = datetime.datetime(2022, 2, 3, 4, 5, 6, 789)


class _FixedDT(datetime.datetime):
    @classmethod
    def now(cls, tz=None):
        return cls(2022, 2, 3, 4, 5, 6, 789)


# a compressed document is recognised by its content: the name it is stored under, the number of gzip members and
# the compression level must not matter; a plain document stored under a name ending in .gz is still plain
GZ_NAMES = [".gz", ".biom", "", ".GZ", ".gzip", ".json", ".txt.gz", ".biom.gz.bak", ".h5", ".tsv"]
_GZ_TURN = [0]


def write_gzip(path, text, members=1, level=9):
    data = text.encode("utf-8")
    cuts = [len(data) * k // members for k in range(members + 1)]
    with open(path, "wb") as f:
        for a, b in zip(cuts, cuts[1:]):
            f.write(gzip.compress(data[a:b], compresslevel=level))


EXTRA_READERS = ["load_table_pathlib", "load_table_handle", "parse_table_text", "parse_table_dense_flag", "from_json_dense_flag",
                 "from_json_data_pump", "from_json_direct", "parse_table_lines_direct", "load_table_gzip_direct",
                 "parse_table_splitlines_keepends", "parse_table_split_newline", "from_json_same_dict_twice",
                 "load_table_plain_named_gz", "parse_table_gzip_handle", "load_table_gzip_handle", "from_json_falsy_dense_flag",
                 "parse_table_falsy_flags"]


def run_case(ctx, t, gen_by, date, tags=(), label=None, want_text=True, opts=None):
    """opts: poke (rng: leave a random layout before each write), direct_first, writer ('file'|'stringio'|'minimal'),
    extra (names of additional readers), shuffle (rng: order of readers), profile (kwargs for biom.err.errstate),
    expect (the table content the documents must carry, captured earlier), date None = the writer's default
    `datetime.now()` (pinned through biom.table.datetime)"""
    import contextlib
    import warnings
    import biom.table as BT
    import biom.err
    opts = opts or {}
    os.makedirs(TMP, exist_ok=True)
    hits0 = _XP_HITS[0]
    inp = xp(opts.get("expect") or table_input(t))
    gen_by_x = xp(gen_by)
    date_s = (FIXED_NOW if date is None else date).isoformat()
    case = {"table": inp, "generated_by": gen_by_x, "date": date_s, "label": label,
            "opts": {k: (v if isinstance(v, (str, bool, list, dict)) else True) for k, v in opts.items()
                     if k not in ("expect", "produce")}}
    nnz = sum(1 for r in inp["rows"] for x in r if x != "0")
    ctx.case({"table": inp, "generated_by": gen_by_x, "date": date_s},
             nontrivial=(len(inp["obs"]) * len(inp["samp"]) >= 2 or nnz >= 1))
    p = os.path.join(TMP, "t_%d.biom" % os.getpid())
    pd = p + ".direct"
    _GZ_TURN[0] += 1
    gz_name = opts.get("gz_name", GZ_NAMES[_GZ_TURN[0] % len(GZ_NAMES)])
    gz_members = opts.get("gz_members", [1, 1, 2, 3][(_GZ_TURN[0] // len(GZ_NAMES)) % 4])
    case["opts"]["gz_name"], case["opts"]["gz_members"] = gz_name, gz_members
    pz = p + ".z" + gz_name
    pzd = p + ".direct.z" + gz_name
    ppl = p + ".plain.gz"
    susp = []
    old_dt = BT.datetime
    stack = contextlib.ExitStack()
    try:
        if date is None:
            BT.datetime = _FixedDT
        if opts.get("profile"):
            stack.enter_context(warnings.catch_warnings())
            warnings.simplefilter("ignore")
            stack.enter_context(biom.err.errstate(**opts["profile"]))
        elif opts.get("warn_error"):
            # a warnings filter that turns every warning of the library into an exception
            stack.enter_context(warnings.catch_warnings())
            warnings.simplefilter("error")
            warnings.simplefilter("ignore", ResourceWarning)
        try:
            writer = opts.get("writer", "file")

            positional = bool(opts.get("positional"))

            def stress():
                if opts.get("poke"):
                    case["opts"].setdefault("poked", []).append(core.poke_layout(t, opts["poke"]))
                    if opts["poke"].random() < 0.3 and t.shape[0] and t.shape[1]:
                        # an iterator of the caller's left suspended across the write
                        it = t.iter(axis=opts["poke"].choice(["sample", "observation"]))
                        next(it)
                        susp.append(it)

            def write_string():
                stress()
                if positional:
                    return t.to_json(gen_by, None, date)
                return t.to_json(generated_by=gen_by, creation_date=date) if opts.get("poke") else \
                    t.to_json(gen_by, creation_date=date)

            def write_direct():
                stress()
                if writer == "file":
                    with open(pd, "w", encoding="utf-8") as f:
                        ret = t.to_json(gen_by, f, date) if positional else \
                            t.to_json(gen_by, direct_io=f, creation_date=date)
                    with open(pd, encoding="utf-8") as f:
                        out = f.read()
                elif writer == "stringio_reused":
                    # the same stream object as in earlier calls: this document is what was appended
                    w = _SHARED_STREAM
                    if w.tell() > 1 << 20:
                        w.seek(0)
                        w.truncate()
                    at = w.tell()
                    ret = t.to_json(gen_by, direct_io=w, creation_date=date)
                    out = w.getvalue()[at:]
                    with open(pd, "w", encoding="utf-8") as f:
                        f.write(out)
                else:
                    w = io.StringIO() if writer == "stringio" else MinimalWriter()
                    ret = t.to_json(gen_by, direct_io=w, creation_date=date)
                    out = w.getvalue() if writer == "stringio" else "".join(w.parts)
                    with open(pd, "w", encoding="utf-8") as f:
                        f.write(out)
                if ret is not None:
                    raise AssertionError("to_json(direct_io=...) returned %r" % (ret,))
                return out
            if opts.get("produce"):
                res = opts["produce"]()
                text, text_d = res[0], res[1]
                if len(res) > 2:                    # the front end chose the date itself
                    date_s = res[2]
                    case["date"] = date_s
                with open(pd, "w", encoding="utf-8") as f:
                    f.write(text_d)
            elif opts.get("direct_first"):
                text_d = write_direct()
                text = write_string()
            else:
                text = write_string()
                text_d = write_direct()
        except Exception as e:  # noqa
            ctx.fail(case, "convert:raised" if opts.get("produce") else "to_json:raised", list(tags),
                     detail=xp("%s: %s" % (type(e).__name__, e)))
            return None
        try:
            toks = tokenize(text)
        except LexError as e:
            ctx.fail(case, "string:lex-error", list(tags), detail=xp({"error": str(e), "text": text[:2000]}))
            return None
        try:
            toks_d = tokenize(text_d)
        except LexError as e:
            ctx.fail(case, "direct:lex-error", list(tags), detail=xp({"error": str(e), "text": text_d[:2000]}))
            return None
        from biom import Table, load_table, parse_table
        try:
            # a document is put into a file as UTF-8 (what load_table reads)
            with open(p, "w", encoding="utf-8") as f:
                f.write(text)
            write_gzip(pz, text, gz_members, [9, 1, 6][_GZ_TURN[0] % 3])
        except UnicodeEncodeError as e:
            ctx.fail(case, "string:not-encodable-as-utf8", list(tags), detail=str(e)[:300])
            return None

        def same_dict_twice():
            d = json.loads(text)
            first = Table.from_json(d)
            if d != json.loads(text):
                raise AssertionError("from_json changed the document handed to it")
            second = Table.from_json(d)
            if table_input(first) != table_input(second):
                raise AssertionError("from_json on the same document object gave two different tables")
            return second

        def from_handle():
            with open(p, encoding="utf-8") as f:
                return parse_table(f)

        def from_lines(q=p):
            with open(q, encoding="utf-8") as f:
                return parse_table(f.readlines())

        def lt_handle():
            with open(p, encoding="utf-8") as f:
                return load_table(f)

        def gz_direct():
            write_gzip(pzd, text_d, gz_members)
            return load_table(pzd)

        def plain_named_gz():
            with open(ppl, "w", encoding="utf-8") as f:
                f.write(text)
            return load_table(ppl)

        def gz_handle(reader):
            with gzip.open(pz, "rt", encoding="utf-8") as f:
                return reader(f)

        def pump():
            d = json.loads(text)
            data = d["data"]
            d["data"] = [[0, 0, 12345.0]] if data else []
            return Table.from_json(d, data_pump=data) if data else Table.from_json(d)

        readers = [
            ("load_table", lambda: load_table(p)),
            ("load_table_gzip", lambda: load_table(pz)),
            ("parse_table_handle", from_handle),
            ("parse_table_stringio", lambda: parse_table(io.StringIO(text))),
            ("parse_table_lines", from_lines),
            ("from_json", lambda: Table.from_json(json.loads(text))),
            ("load_table_direct", lambda: load_table(pd)),
            ("parse_table_splitlines", lambda: parse_table(text.splitlines())),
        ]
        extra = {
            "load_table_pathlib": lambda: load_table(__import__("pathlib").Path(p)),
            "load_table_handle": lt_handle,
            "parse_table_text": lambda: parse_table(text),
            "parse_table_dense_flag": lambda: parse_table(io.StringIO(text), input_is_dense=True),
            "from_json_dense_flag": lambda: Table.from_json(json.loads(text), input_is_dense=True),
            "from_json_data_pump": pump,
            "from_json_direct": lambda: Table.from_json(json.loads(text_d)),
            "parse_table_lines_direct": lambda: from_lines(pd),
            "load_table_gzip_direct": gz_direct,
            "parse_table_splitlines_keepends": lambda: parse_table(text_d.splitlines(True)),
            "parse_table_split_newline": lambda: parse_table(text.split("\n")),
            "from_json_same_dict_twice": same_dict_twice,
            "load_table_plain_named_gz": plain_named_gz,
            "parse_table_gzip_handle": lambda: gz_handle(parse_table),
            "load_table_gzip_handle": lambda: gz_handle(load_table),
            "from_json_falsy_dense_flag": lambda: Table.from_json(json.loads(text), input_is_dense=__import__("numpy").False_),
            "parse_table_falsy_flags": lambda: parse_table(io.StringIO(text), None, "sample", 0),
        }
        for name in opts.get("extra", ()):
            readers.append((name, extra[name]))
        if opts.get("shuffle"):
            opts["shuffle"].shuffle(readers)
        reads = [read_obs(name, f) for name, f in readers]
    finally:
        BT.datetime = old_dt
        stack.close()
        del susp[:]
        for q in (p, pd, pz, pzd, ppl):
            if os.path.exists(q):
                os.remove(q)
    req = {"table": inp, "generated_by": gen_by_x, "date": date_s, "toks": xp(toks), "toks_direct": xp(toks_d),
           "reads": xp(reads)}
    if opts.get("produce"):
        req["single_form"] = True
    if _XP_HITS[0] != hits0:
        # Lean's own Json.parse has no value for an unpaired surrogate escape: the raw-character cross-check is
        # skipped for these documents (the token-level predicate is evaluated as for every other case)
        want_text = False
        ctx.count("unpaired-surrogate-doc")
    if want_text:
        req["text"] = text
        req["text_direct"] = text_d
    r = ctx.driver.ask(req)
    case["text"] = xp(text if len(text) < 4000 else text[:4000])
    if not r["model_holds"]:
        ctx.diverge(case, "theorem model_holds contradicted by the driver", list(tags))
    if not r["holds"]:
        bad = [x for x in reads if "error" in x]
        ctx.fail(case, r["clause"], list(tags), detail=xp({"reader_errors": bad[:3], "text_direct": text_d[:2000]}))
    elif not r["agree"]:
        ctx.diverge(case, "model differs: %s" % r["what"], list(tags), detail=xp({"text_direct": text_d[:2000]}))
    return r


def rand_opts(rng):
    """stressors for a random case: layout left behind, order of the two writes, kind of stream, extra readers
    with rarely used arguments, order of the readers, error profile"""
    o = {}
    if rng.random() < 0.5:
        o["poke"] = rng
    if rng.random() < 0.5:
        o["direct_first"] = True
    o["writer"] = rng.choice(["file", "file", "stringio", "minimal", "stringio_reused"])
    if rng.random() < 0.3:
        o["positional"] = True
    o["extra"] = rng.sample(EXTRA_READERS, rng.choice([0, 1, 2, 2]))
    if rng.random() < 0.5:
        o["shuffle"] = rng
    c = rng.random()
    if c < 0.1:
        o["profile"] = {"empty": "raise"}
    elif c < 0.2:
        o["profile"] = {"all": rng.choice(["warn", "call"]), "empty": "ignore"}
    elif c < 0.3:
        o["warn_error"] = True
    return o


def build_fixed(name):
    import numpy as np
    from biom import Table
    d0 = datetime.datetime(2014, 6, 3, 14, 24, 40, 884420)
    if name == "repaired-9c6706ed-header-strings":
        t = Table(np.array([[1.0, 2.0], [3.0, 4.0]]), ['o"1', "o\\2"], ["s1", "s2"], table_id='a"b\\c', type='OTU "table"\\')
        return t, 'gen"by\\x', d0
    if name == "repaired-f3626f61-value-precision":
        t = Table(np.array([[1e-7, 0.1234567891], [1e300, 5e-324]]), ["o1", "o2"], ["s1", "s2"], type="OTU table")
        return t, "g", d0
    if name == "repaired-e8ba4fdc-all-zero-table":
        return Table(np.zeros((2, 2)), ["a", "b"], ["x", "y"]), "g", d0
    if name == "all-zero-1x1":
        return Table(np.zeros((1, 1)), ["a"], ["x"]), "g", d0
    if name == "empty-0x0":
        return Table(np.zeros((0, 0)), [], []), "g", d0
    if name == "middle-zero-row":
        return Table(np.array([[1.0, 0], [0, 0], [0, 2.0]]), ["a", "b", "c"], ["x", "y"]), "g", d0
    if name == "first-last-zero-rows":
        return Table(np.array([[0.0, 0], [0, 0], [3.5, -2.0], [0, 0], [0, 0]]), list("abcde"), ["x", "y"]), "g", d0
    if name == "extreme-values":
        vals = [[1.7976931348623157e308, -1.7976931348623157e308, 5e-324, -5e-324],
                [2.2250738585072014e-308, 0.1, 1e22, 1e23], [1e16, 123456789012345678.0, 1e-5, 0.0001]]
        return Table(np.array(vals), ["a", "b", "c"], ["w", "x", "y", "z"]), "g", d0
    if name == "metadata-kinds":
        omd = [{"k": (1, 2, [3, None]), "t": "x\"y\\z\n\x00", "n": None, "b": True, "f": 1e-7, "big": 2 ** 70,
                "d": {"in\"ner": [1.5, {"deep": []}]}}]
        smd = [{"z": np.float32(0.1), "w": np.int64(7), "u": np.uint64(2 ** 63), "arr": np.array([1, 2]), "e": [], "o": {}}]
        return Table(np.array([[3.5]]), ["a"], ["x"], omd, smd, type="OTU table", table_id=5), "g", d0
    if name == "metadata-partial":
        return Table(np.array([[1.0, 0], [0, 3.0]]), ["a", "b"], ["x", "y"], [{"k": 1}, None], [{}, {"q": "r"}]), "g", d0
    if name == "md-np-bool":
        return Table(np.array([[1.0]]), ["a"], ["x"], [{"k": np.bool_(True)}]), "g", d0
    if name == "cancelling-rows":
        vals = [[2.5, -2.5, 0.0, 0.0], [1e-7, 0.0, 0.0, -1e-7], [0.0, 0.0, 0.0, 0.0], [3.0, -1.0, -2.0, 0.0], [1.0, 1.0, 0.0, 0.0]]
        return Table(np.array(vals), list("abcde"), list("wxyz")), "g", d0
    if name == "aware-date":
        tz = datetime.timezone(datetime.timedelta(hours=5, minutes=30))
        return (Table(np.array([[1.0, 2.0]]), ["a"], ["x", "y"]), "g",
                datetime.datetime(2024, 5, 6, 7, 8, 9, 123456, tz))
    if name == "whole-numbers-beyond-int64":
        return Table(np.array([[1e19, 1.0], [2.0 ** 63, -1e25], [1e300, 3.0]]), list("abc"), ["x", "y"]), "g", d0
    if name == "id-trailing-newline":
        return Table(np.array([[1.0, 2.0], [3.0, 4.0]]), ["abc\n", "GG_OTU-1.5"], ["s1\n", "\ns2"]), "g", d0
    if name == "group-metadata":
        return (Table(np.array([[1.0, 0.0], [0.0, 2.5]]), ["a", "b"], ["x", "y"], [{"k": "v"}, {"k": "w"}], None,
                      observation_group_metadata={"tree": ("newick", "(a:0.1,b:0.2);")},
                      sample_group_metadata={"graph": ("csv", "x,y\n")}, type="OTU table"), "g", d0)
    if name == "deeply-nested-metadata":
        v = "leaf\u2028"
        for k in range(60):
            v = [v, k] if k % 2 else {"d%d" % k: v}
        return Table(np.array([[1.0]]), ["a"], ["x"], [{"deep": v}], [{"deep": [v, [v]]}]), "g", d0
    if name == "more-than-512-ids":
        arr = np.zeros((600, 3))
        arr[::5, 0] = 16777217.0
        arr[3::7, 2] = 1e-310
        return Table(arr, ["o%d" % i for i in range(600)], ["s1", "s2", "s3"]), "g", d0
    if name == "more-than-512-samples":
        arr = np.zeros((2, 700))
        arr[0, ::3] = 0.3
        arr[1, 5::11] = 2.0 ** 53 + 2
        return Table(arr, ["o1", "o2"], ["s%d" % i for i in range(700)], None, [{"n": i} for i in range(700)]), "g", d0
    if name == "line-separators-and-twins":
        return (Table(np.array([[1.0, 2.0, 0.0], [0.0, 4.0, 5.5]]), ["caf\u00e9", "cafe\u0301"],
                      ["ls\u2028x", "ps\u2029x", "nel\u0085x"], [{"k\u2028": "v\u0085"}, {"k\u2028": "\"q%s"}],
                      type="t\u2029"), "g\u2028", d0)
    if name == "unpaired-surrogates":
        return (Table(np.array([[1.0, 0.0], [0.0, 2.5]]), ["a\udcff", "\ud800b"], ["x", "\udc00"],
                      [{"k\udcff": "v\udc00"}, {"k\udcff": ["\ud83d"]}], type="t\udbff", table_id="i\udcff"), "g\udcff", d0)
    if name == "non-bmp-ids":
        return Table(np.array([[1.0, 2.5]]), ["\U0001F600\U0010FFFF"], ["s ", "\x7f\x01"], type="\U00010000"), "\U0001F600", d0
    raise ValueError(name)


FIXED = ["repaired-9c6706ed-header-strings", "repaired-f3626f61-value-precision", "repaired-e8ba4fdc-all-zero-table",
         "all-zero-1x1", "empty-0x0", "middle-zero-row", "first-last-zero-rows", "extreme-values", "metadata-kinds",
         "metadata-partial", "non-bmp-ids", "md-np-bool", "cancelling-rows", "aware-date", "whole-numbers-beyond-int64",
         "id-trailing-newline", "group-metadata", "deeply-nested-metadata", "more-than-512-ids", "more-than-512-samples",
         "line-separators-and-twins", "unpaired-surrogates"]


def warmup(ctx):
    """process-level state: before anything else use the same file path for other formats and the readers with
    unusual arguments; the default calls of every later case must be unaffected"""
    import numpy as np
    import h5py
    from biom import Table, load_table, parse_table
    os.makedirs(TMP, exist_ok=True)
    p = os.path.join(TMP, "t_%d.biom" % os.getpid())
    t = Table(np.array([[1.0, 0.0], [0.0, 2.5]]), ["w1", "w2"], ["x1", "x2"])
    try:
        with h5py.File(p, "w") as f:
            t.to_hdf5(f, "warmup")
        load_table(p)
        with open(p, "w") as f:
            f.write(t.to_tsv())
        load_table(p)
        with gzip.open(p + ".gz", "wb") as f:
            f.write(t.to_tsv().encode())
        load_table(p + ".gz")
        dense = json.loads(t.to_json("warmup"))
        dense["matrix_type"] = "dense"
        dense["data"] = [[1.0, 0.0], [0.0, 2.5]]
        Table.from_json(dense)
        Table.from_json(json.loads(t.to_json("warmup")), input_is_dense=True)
        parse_table(io.StringIO(t.to_json("warmup")), ids=["x1"], axis="sample")
        parse_table([t.to_json("warmup")], ids=["w2"], axis="observation")
        t.to_json("warmup", direct_io=MinimalWriter(), creation_date=datetime.datetime(1999, 1, 1, tzinfo=datetime.timezone.utc))
        ctx.count("warmup-ok")
    except Exception as e:  # noqa
        ctx.notes.append("warm-up step raised %s: %s" % (type(e).__name__, str(e)[:200]))
        ctx.count("warmup-raised")
    finally:
        for q in (p, p + ".gz"):
            if os.path.exists(q):
                os.remove(q)


def check_refusal(ctx, t, rng):
    """`generated_by` must be text: the call is refused, nothing reaches the stream, the table is untouched"""
    from biom.exception import TableException
    before = table_input(t)
    for bad in (5, None, b"bytes", ["g"]):
        w = MinimalWriter()
        case = {"table": before, "generated_by": repr(bad), "label": "refusal"}
        for kw in ({}, {"direct_io": w}):
            try:
                t.to_json(bad, **kw)
                ctx.fail(case, "to_json:non-text-generated_by-accepted", ["refusal"])
            except TableException:
                pass
            except Exception as e:  # noqa
                ctx.fail(case, "to_json:non-text-generated_by-wrong-exception", ["refusal"], detail=type(e).__name__)
        if w.parts:
            ctx.fail(case, "to_json:refused-call-wrote-to-stream", ["refusal"], detail="".join(w.parts)[:200])
    if table_input(t) != before:
        ctx.fail({"table": before, "label": "refusal"}, "to_json:refused-call-changed-table", ["refusal"])
    ctx.count("refusal-checked")


DERIVATIONS = ["copy", "filter_false", "sort_order", "transpose2", "sort", "from_json", "ctor_shared_md"]
SAFE_EDITS = ["del_md_subset_obs", "del_md_subset_samp", "mutate_dict_obs", "mutate_dict_samp", "replace_value_samp",
              "transform_inplace", "filter_inplace", "update_ids_inplace", "rotate_ids_inplace", "add_md_existing_obs", "set_type_id",
              "del_md_all_whole"]


def derive(t, how):
    import json as _json
    from biom import Table
    if how == "copy":
        return t.copy()
    if how == "filter_false":
        return t.filter(list(t.ids()), inplace=False)
    if how == "sort_order":
        return t.sort_order(list(reversed(t.ids())))
    if how == "transpose2":
        return t.transpose().transpose()
    if how == "sort":
        return t.sort(axis="observation")
    if how == "from_json":
        return Table.from_json(_json.loads(t.to_json("derive")))
    if how == "ctor_shared_md":
        return Table(t.matrix_data, t.ids(axis="observation"), t.ids(), t.metadata(axis="observation"), t.metadata(),
                     type=t.type)
    raise ValueError(how)


def alias_case(ctx, rng, src, how, edit, tags):
    """keep `src` alive, derive a table, edit ONE of the two in place, write the OTHER again: its documents must
    still carry the content it had before the edit"""
    try:
        der = derive(src, how)
    except Exception as e:  # noqa
        ctx.count("derive-skipped:%s" % type(e).__name__)
        return
    a, b = (src, der) if rng.random() < 0.6 else (der, src)          # a is written, b is edited
    d0 = datetime.datetime(2020, 5, 6, 7, 8, 9)
    run_case(ctx, a, "alias", d0, tags=tuple(tags) + ("alias", "first"), label="alias:first:" + how, opts=rand_opts(rng))
    run_case(ctx, b, "alias", d0, tags=tuple(tags) + ("alias", "first-other"), label="alias:first-other:" + how)
    expect = table_input(a)
    try:
        ok = apply_inplace_edit(rng, b, edit)
    except Exception as e:  # noqa
        ctx.count("edit-skipped:%s" % type(e).__name__)
        return
    if ok:
        o = rand_opts(rng)
        o["expect"] = expect
        run_case(ctx, a, "alias", d0, tags=tuple(tags) + ("alias", how, edit), label="alias:%s:%s" % (how, edit), opts=o)
        ctx.count("alias=%s" % how)


# ----------------------------------------------------------------------------- `biom convert ... --to-json`
CONVERT_TYPES = ["OTU table", "Pathway table", "Function table", "Ortholog table", "Gene table", "Metabolite table",
                 "Taxon table", "Table"]


def convert_spec(rng, omd, smd, n=None, m=None):
    """a table every input format of the converter can carry (text / list-of-text metadata, tab-free IDs)"""
    n = n or rng.randint(1, 4)
    m = m or rng.randint(1, 4)
    pool = ["GG_OTU-1.5", "o\"q", "back\\sl", "\u00e9\u65e5", "x y", "a,b", "{id}", "%s", "O_long_identifier_17", "o'q"]
    rng.shuffle(pool)
    obs = ["%s_%d" % (pool[i % len(pool)], i) for i in range(n)]
    samp = ["S%d%s" % (j, rng.choice(["", ".a", "\"", "\u00b5", " b"])) for j in range(m)]
    rows = [[rng.choice([0.0, 0.0, 1.0, 2.5, 1e-7, 0.1234567891, 12345678.0, -3.0, 5e-324]) for _ in range(m)] for _ in range(n)]
    spec = {"obs": obs, "samp": samp, "rows": rows, "type": rng.choice([None, "OTU table", "Gene table"])}
    spec["omd"] = [{"taxonomy": ["k__A", "p__%s" % rng.choice("xyz"), "g__\"q %d" % i]} for i in range(n)] if omd else None
    if omd == "two-keys":
        for i, e in enumerate(spec["omd"]):
            e["note"] = "n\\%d; z" % i
    if omd == "text-first":
        spec["omd"] = [{"lineage": "k__A; p__%d ;g__x" % i, "note": "keep %d" % i} for i in range(n)]
    spec["smd"] = [{"barcode": rng.choice(["ATGC", "GG\"TT"]), "env": "e%d" % j} for j in range(m)] if smd else None
    return spec


def spec_input(spec):
    return {"obs": spec["obs"], "samp": spec["samp"], "rows": [[core.frac(v) for v in r] for r in spec["rows"]]}


def write_convert_input(t, fmt, path):
    import h5py
    if fmt == "json":
        with open(path, "w", encoding="utf-8") as f:
            f.write(t.to_json("convert input"))
    elif fmt == "json.gz":
        with gzip.open(path, "wb") as f:
            f.write(t.to_json("convert input").encode("utf-8"))
    elif fmt == "hdf5":
        with h5py.File(path, "w") as f:
            t.to_hdf5(f, "convert input")
    elif fmt == "tsv":
        md = t.metadata(axis="observation")
        key = list(md[0].keys())[0] if md is not None else None
        fmt_f = (lambda x: "; ".join(x) if isinstance(x, (list, tuple)) else str(x))
        with open(path, "w", encoding="utf-8") as f:
            f.write(t.to_tsv(header_key=key, header_value=key, metadata_formatter=fmt_f))
            f.write("\n")
    else:
        raise ValueError(fmt)


C_LOCALE = {"LC_ALL": "C", "LANG": "C", "LANGUAGE": "", "PYTHONUTF8": "0", "PYTHONCOERCECLOCALE": "0", "PYTHONIOENCODING": ""}


def convert_case(ctx, rng, spec, fmt, flags, mapping=None, tags=(), obs_mapping=None, sub_env=None):
    """write `spec` as `fmt`, run the real `biom convert -i … -o … --to-json <flags>` (sub-command object, in
    process) and judge the file it writes by the same predicate.  Expected content = what `load_table` reads from
    the input, with the documented effect of the flags that apply to JSON output: --table-type (else a missing
    type becomes "Table"), -m (sample metadata added), --process-obs-metadata (first observation category
    re-parsed); --collapsed-*, --header-key, --output-metadata-id, --tsv-metadata-formatter do not apply."""
    import biom.table as BT
    import biom.parse
    from biom import load_table
    from biom.parse import MetadataMap
    from click.testing import CliRunner
    from biom.cli.table_converter import convert
    os.makedirs(TMP, exist_ok=True)
    base = os.path.join(TMP, "cv_%d" % os.getpid())
    pin, pout, pmap, pomap = base + ".in", base + ".out", base + ".map", base + ".omap"
    label = "convert:%s:%s" % (fmt, " ".join(flags) + (" -m" if mapping else "") +
                               (" --observation-metadata-fp" if obs_mapping else "") + (" [C locale]" if sub_env else ""))
    try:
        try:
            t = core.build(spec, "dense")
            write_convert_input(t, fmt, pin)
            tin = load_table(pin)
        except Exception as e:  # noqa
            if fmt in ("json", "json.gz"):
                # a (compressed) JSON document read by path is one of this property's readers
                ctx.fail({"table": xp(spec_input(spec)), "label": label}, "load_table:raised", ["convert", fmt, "input"] + list(tags),
                         detail=xp("%s: %s" % (type(e).__name__, e)))
            else:    # writing / reading the other formats is not this property's business
                ctx.count("convert-input-skipped:%s" % type(e).__name__)
            return
        expect = table_input(tin)
        expect["table_id"] = str(tin.table_id)     # what the input file carries ("None", or HDF5's placeholder)
        args = ["-i", pin, "-o", pout, "--to-json"] + list(flags)
        if "--table-type" in flags:
            expect["type"] = flags[flags.index("--table-type") + 1]
        elif expect["type"] in (None, "None"):
            expect["type"] = "Table"
        omd = None if tin.metadata(axis="observation") is None else [dict(m) for m in tin.metadata(axis="observation")]
        smd = None if tin.metadata() is None else [dict(m) for m in tin.metadata()]
        if mapping:
            with open(pmap, "w", encoding="utf-8") as f:
                f.write(mapping)
            args += ["-m", pmap]
            with open(pmap, encoding="utf-8") as f:
                mm = MetadataMap.from_file(f)
            ids = [str(i) for i in tin.ids()]
            if smd is None:
                smd = [dict(mm[i]) if i in mm else {} for i in ids]
            else:
                for i, e in zip(ids, smd):
                    if i in mm:
                        e.update(mm[i])
            if all(not e for e in smd):
                smd = None
        if "--process-obs-metadata" in flags:
            how = flags[flags.index("--process-obs-metadata") + 1]
            key = list(omd[0].keys())[0]
            for e in omd:
                e[key] = e[key] if how == "naive" else [x.strip() for x in e[key].split(";")]
            if obs_mapping:
                # with --process-obs-metadata the observation mapping file is merged into the re-parsed entries
                with open(pomap, "w", encoding="utf-8") as f:
                    f.write(obs_mapping)
                args += ["--observation-metadata-fp", pomap]
                with open(pomap, encoding="utf-8") as f:
                    om = MetadataMap.from_file(f)
                for i, e in zip([str(i) for i in tin.ids(axis="observation")], omd):
                    if i in om:
                        e.update(om[i])
        expect["omd"] = md_obs(omd, len(expect["obs"]))
        expect["smd"] = md_obs(smd, len(expect["samp"]))

        def produce_sub():
            # the installed entry point in its own process, under the given environment (locale)
            import subprocess
            import sys
            if os.path.exists(pout):
                os.remove(pout)
            env = dict(os.environ, PYTHONPATH=core.REPO, **sub_env)
            env["PYTHONHASHSEED"] = str(rng.randint(1, 4000000))       # nothing may depend on set / dict hashing order
            t_before = datetime.datetime.now()
            r = subprocess.run([sys.executable, "-c",
                                "import sys; from biom.cli import cli; sys.argv[0] = 'biom'; cli()", "convert"] + args,
                               env=env, capture_output=True, text=True, errors="replace", timeout=120)
            t_after = datetime.datetime.now()
            if r.returncode != 0:
                raise RuntimeError("biom convert (subprocess) exit code %s: %s" % (r.returncode, (r.stderr or "")[-400:]))
            with open(pout, "rb") as f:
                raw = f.read()
            text = raw.decode("utf-8")            # load_table reads UTF-8: a file that is not UTF-8 is a failure
            m = re.search(r'"date": "([^"]*)"', text)
            date_s = m.group(1) if m else ""
            try:
                when = datetime.datetime.fromisoformat(date_s)
                if not (t_before - datetime.timedelta(seconds=1) <= when <= t_after + datetime.timedelta(seconds=1)):
                    raise ValueError("creation date %s is not the time of the call" % date_s)
            except ValueError as e:
                raise RuntimeError("default creation date: %s" % e)
            return text, text, date_s

        def produce():
            if os.path.exists(pout):
                os.remove(pout)
            saved = os.dup(1)
            old = BT.datetime
            BT.datetime = _FixedDT
            try:
                res = CliRunner().invoke(convert, args)
            finally:
                BT.datetime = old
                os.dup2(saved, 1)
                os.close(saved)
            if res.exception is not None and not isinstance(res.exception, SystemExit):
                raise res.exception
            if res.exit_code != 0:
                raise RuntimeError("biom convert exit code %s: %s" % (res.exit_code, (res.output or "")[-300:]))
            with open(pout, encoding="utf-8") as f:
                text = f.read()
            return text, text
        o = {"produce": produce_sub if sub_env else produce, "expect": expect, "extra": rng.sample(EXTRA_READERS[:6], 1),
             "convert": {"spec": spec, "fmt": fmt, "flags": list(flags), "mapping": mapping, "obs_mapping": obs_mapping,
                         "sub_env": sub_env}}
        run_case(ctx, None, biom.parse.generatedby(), None, tags=("convert", fmt) + tuple(tags), label=label, opts=o)
        ctx.count("convert-from=" + fmt)
        if sub_env:
            ctx.count("convert-subprocess-C-locale")
        for fl in flags:
            if fl.startswith("--"):
                ctx.count("convert-flag=" + fl)
        if mapping:
            ctx.count("convert-flag=-m")
    finally:
        for q in (pin, pout, pmap, pomap):
            if os.path.exists(q):
                os.remove(q)


def convert_flag_sets(rng, spec, fmt, tin_has_text_first):
    """flag sets accepted together with --to-json for this input"""
    sets = [[], ["--collapsed-observations"], ["--collapsed-samples"], ["--collapsed-observations", "--collapsed-samples"],
            ["--table-type", rng.choice(CONVERT_TYPES)],
            ["--header-key", "taxonomy"], ["--header-key", "taxonomy", "--output-metadata-id", "Consensus Lineage"],
            ["--tsv-metadata-formatter", "naive"], ["--tsv-metadata-formatter", "sc_separated", "--collapsed-samples"],
            ["--table-type", rng.choice(CONVERT_TYPES), "--collapsed-observations", "--header-key", "note",
             "--tsv-metadata-formatter", "naive"]]
    if spec["omd"] is not None:
        sets.append(["--process-obs-metadata", "naive"])
        if tin_has_text_first:
            sets.append(["--process-obs-metadata", "sc_separated"])
            sets.append(["--process-obs-metadata", "taxonomy", "--collapsed-samples", "--table-type", "Taxon table"])
    return sets


def convert_stream(ctx, rng):
    md_cfgs = [(None, None), ("one", None), (None, True), ("one", True), ("two-keys", True), ("text-first", True)]
    wn = max(1, ctx.worker[1])            # the thorough tier is sharded over worker processes: divide the volume
    n_rand = 40 if ctx.quick() else max(40, 640 // wn)
    # systematic: every input format x metadata configuration x every flag set
    for fmt in ("json", "hdf5", "tsv", "json.gz"):
        for omd, smd in md_cfgs:
            spec = convert_spec(rng, omd, smd)
            # in a TSV the first observation category arrives as text; in JSON/HDF5 only "text-first" has a text value
            text_first = (fmt == "tsv" and omd is not None) or omd == "text-first"
            sets = convert_flag_sets(rng, spec, fmt, text_first)
            if ctx.quick() and fmt == "json.gz":
                sets = sets[:4]
            for flags in sets:
                convert_case(ctx, rng, spec, fmt, flags, tags=("systematic",))
            ids = spec["samp"]
            mapping = "#SampleID\tdepth\tsite name\n" + "".join("%s\t%d\tsite %d\n" % (i, 10 * k, k) for k, i in enumerate(ids[:-1] or ids))
            convert_case(ctx, rng, spec, fmt, rng.choice(sets), mapping=mapping, tags=("systematic", "mapping"))
            if spec["omd"] is not None and any('"' not in i for i in spec["obs"]):
                omap = "#OTUID\tconfidence\n" + "".join("%s\t0.%d\n" % (i, k + 1) for k, i in enumerate(spec["obs"]) if '"' not in i)   # the mapping parser drops quotes
                convert_case(ctx, rng, spec, fmt, ["--process-obs-metadata", "naive"], obs_mapping=omap,
                             tags=("systematic", "obs-mapping"))
    # the real entry point in a sub-process under a C (ASCII) locale: non-ASCII IDs and metadata must still arrive
    for k in range(3 if ctx.quick() else max(3, 16 // wn)):
        fmt = ["json", "hdf5", "tsv", "json.gz"][(k + ctx.worker[0]) % 4]
        omd, smd = md_cfgs[3 + k % 3]
        spec = convert_spec(rng, omd, smd, rng.randint(2, 5), rng.randint(2, 5))
        spec["obs"][0] = "caf\u00e9_\u65e5\U0001F600"
        if fmt != "tsv":
            spec["smd"][0]["env"] = "\u00b5m \u2028 \u0085"
        flags = rng.choice(convert_flag_sets(rng, spec, fmt, (fmt == "tsv") or omd == "text-first"))
        convert_case(ctx, rng, spec, fmt, flags, tags=("c-locale",), sub_env=C_LOCALE)
    for _ in range(n_rand):
        omd, smd = rng.choice(md_cfgs)
        fmt = rng.choice(["json", "hdf5", "tsv", "json.gz"])
        spec = convert_spec(rng, omd, smd, rng.randint(1, 6), rng.randint(1, 6))
        text_first = (fmt == "tsv" and omd is not None) or omd == "text-first"
        flags = rng.choice(convert_flag_sets(rng, spec, fmt, text_first))
        convert_case(ctx, rng, spec, fmt, flags, tags=("random",))


def run(ctx):
    ctx.rule = ("tables of 1..N x 1..M (N,M <= 6 quick / 9 thorough; plus 0x0) with chosen sparsity patterns (all-zero table, "
                "fully dense, all-zero rows first/middle/last, all-zero columns), values over counts/dyadics/negatives/"
                "1e-7/0.1234567891/5e-324/1.797e308/random bit patterns; IDs, metadata keys/values, table id, type and "
                "generated-by over arbitrary Unicode scalar values incl. quotes, backslashes, controls, non-BMP; metadata of "
                "every JSON kind incl. nesting and numpy scalars/arrays; every core.build route x prior operations; a stream of "
                "large tables (120x80 .. 220x110, data block 60-400 KiB) through both writer paths; write -> in-place edit "
                "(del_metadata subset/all, add_metadata, direct mutation of a metadata mapping or a nested list, in-place "
                "transform/filter/update_ids, type/id assignment) -> write-again histories on one table object, the "
                "second document judged against the table's current content; stressors on a share of all cases: random "
                "layout left behind by read-only accessors before each write, streamed form written first, stream kinds "
                "(file / StringIO / write-only object), readers with rarely used arguments and in random order, non-default "
                "error profiles, the writer's default date; wide tables (>=64 IDs on one axis); aliasing histories (derive a "
                "table, edit one in place, the other must still write its old content); "
                "non-trivial = at least two cells or one non-zero value; distinct = distinct (table, generated_by, date)")
    ctx.trusted = ["the harness tokenizer (regex lexer; string literals decoded by json.loads, float literals by float()); "
                   "cross-checked per case by Lean's own Json.parse of the raw characters",
                   "to_j: which JSON value a Python/numpy metadata value denotes (contract of dumps/NpEncoder)"]
    ctx.assumptions = ["tables with exactly one empty axis (Nx0, 0xM) are outside the property's quantifier and are not generated"]
    os.makedirs(TMP, exist_ok=True)
    rng = ctx.rng
    warmup(ctx)
    # fixed corpus first: the repaired defects, then shapes the comma logic distinguishes
    for name in FIXED:
        t, g, d = build_fixed(name)
        run_case(ctx, t, g, d, tags=("fixed", name), label=name)
        ctx.count("fixed-corpus")
    # every route on a few systematic specs
    for spec in ({"obs": ["a", "b", "c"], "samp": ["x", "y"], "rows": [[1.0, 0.0], [0.0, 0.0], [0.0, 2.5]], "type": None},
                 {"obs": ["a"], "samp": ["x", "y", "z"], "rows": [[0.0, 1e-7, 0.0]], "type": "OTU table"},
                 {"obs": ["a", "b"], "samp": ["x"], "rows": [[0.0], [5e-324]], "type": "t\"y"}):
        for route in core.ROUTES:
            t = core.build(spec, route)
            run_case(ctx, t, "g", datetime.datetime(2020, 1, 2), tags=("route", route), label="route:" + route)
            ctx.count("route=" + route)
    # write -> in-place edit -> write again on ONE table object; the second document is judged against the
    # table's CURRENT content (anything a writer remembers from the first call shows here)
    hist_spec = {"obs": ["o1", "o2", "o3"], "samp": ["s1", "s2"], "rows": [[1.0, 0.0], [0.0, 2.5], [3.0, 4.0]],
                 "omd": [{"taxonomy": ["k__A", "p__x"], "conf": 0.5, "n\"k": "a"}, {"taxonomy": ["k__B"], "conf": 0.25, "n\"k": "b"},
                         {"taxonomy": ["k__C", "p__z"], "conf": 1.0, "n\"k": "c"}],
                 "smd": [{"barcode": "ATGC", "env": "A"}, {"barcode": "GGTT", "env": "B"}], "type": "OTU table"}
    for edit in INPLACE_EDITS:
        for first in ("string-and-direct",):
            t = core.build(hist_spec, "dense")
            run_case(ctx, t, "g", datetime.datetime(2020, 1, 2), tags=("history", "first"), label="history:first")
            if apply_inplace_edit(rng, t, edit):
                run_case(ctx, t, "g", datetime.datetime(2020, 1, 2), tags=("history", edit), label="history:" + edit,
                         opts=rand_opts(rng))
                ctx.count("history=" + edit)
                # and once more after a second, different edit
                e2 = "mutate_dict_samp" if edit != "mutate_dict_samp" else "del_md_subset_obs"
                if apply_inplace_edit(rng, t, e2):
                    run_case(ctx, t, "g2", datetime.datetime(2020, 1, 3), tags=("history", edit, e2),
                             label="history:%s+%s" % (edit, e2))
                    ctx.count("history=" + e2)
    # large tables: the data block runs to hundreds of KiB (any buffering / chunking in a writer path shows
    # only here); the full predicate is evaluated by the driver on them as on every other case
    large = [(150, 90, 0.8, "int"), (120, 80, 0.5, "frac"), (130, 70, 0.9, "mixed")]
    wi, wn = ctx.worker[0], max(1, ctx.worker[1])     # thorough: volume divided over the worker processes
    if not ctx.quick():
        if wi == 0:
            large.append((170, 100, 1.0, "frac"))
        for _ in range(max(2, 24 // wn)):
            large.append((rng.randint(100, 220), rng.randint(60, 110), rng.choice([0.3, 0.5, 0.8, 1.0]),
                          rng.choice(["int", "frac", "mixed"])))
    for (ln, lm, dens, kind) in large:
        t = large_table(rng, ln, lm, dens, kind)
        lo = {"poke": rng, "direct_first": rng.random() < 0.5, "writer": rng.choice(["file", "stringio", "minimal"])}
        run_case(ctx, t, "large \"tables\"", datetime.datetime(2021, 3, 4, 5, 6, 7), tags=("large", kind),
                 label="large:%dx%d:%s:%s" % (ln, lm, dens, kind), opts=lo)
        ctx.count("large-table")
        ctx.count("large-data-KiB>=64" if t.nnz * 16 >= 65536 else "large-data-KiB<64")
    # many IDs on one axis, few on the other (size thresholds such as 64 IDs), every layout route; and a table whose
    # "rows" block alone exceeds 64 KiB (long metadata)
    for k in range(4 if ctx.quick() else max(4, 24 // wn)):
        axis = ["sample", "observation"][k % 2]
        spec = core.wide_spec(rng, axis=axis, classes=("count", "dyadic", "tiny"), md=(k % 4 < 2))
        t = core.build(spec, rng.choice(["csc", "csr_unsorted", "coo", "sort_roundtrip"]))
        run_case(ctx, t, "wide", datetime.datetime(2021, 3, 4), tags=("wide", axis), label="wide:" + axis, opts=rand_opts(rng))
        ctx.count("wide-axis=" + axis)
    import numpy as _np
    from biom import Table as _Table
    nb = 300
    omd = [{"taxonomy": ["k__%s" % ("x" * 40), "p__\"%d" % i, "long " * 30], "note": "\\" * 20 + str(i)} for i in range(nb)]
    arr = _np.zeros((nb, 3))
    arr[::7, 1] = 2.5
    arr[5::11, 2] = 1e-7
    t = _Table(arr, ["obs_%d" % i for i in range(nb)], ["s1", "s2", "s3"], omd, [{"d": "x" * 70000}, {"d": ""}, {"d": "y"}])
    run_case(ctx, t, "heavy metadata", datetime.datetime(2021, 3, 4), tags=("large", "rows-block"), label="large:rows-block",
             opts={"direct_first": True, "writer": "minimal", "poke": rng})
    ctx.count("large-rows-block")
    # the writer's default creation date (datetime.now(), pinned), alone and after an explicit date
    for k, name in enumerate(["middle-zero-row", "metadata-kinds", "repaired-9c6706ed-header-strings"]):
        t, g, d = build_fixed(name)
        if k == 1:
            run_case(ctx, t, g, d, tags=("default-date", "explicit-first"), label=name)
        run_case(ctx, t, g, None, tags=("default-date",), label="default-date:" + name, opts=rand_opts(rng))
        ctx.count("default-date")
    # refused calls
    t, g, d = build_fixed("metadata-partial")
    check_refusal(ctx, t, rng)
    run_case(ctx, t, g, d, tags=("after-refusal",), label="after-refusal")
    # the command-line front end that writes JSON
    convert_stream(ctx, rng)
    # aliasing between live tables: systematic over the ways a table is derived
    for how in DERIVATIONS:
        for edit in (["mutate_dict_obs", "del_md_subset_samp", "transform_inplace", "update_ids_inplace"]
                     if (ctx.quick() or wi != 0) else SAFE_EDITS):
            alias_case(ctx, rng, core.build(hist_spec, rng.choice(core.ROUTES)), how, edit, ("systematic",))
    n = 650 if ctx.quick() else max(650, 12000 // wn)
    max_n = 6 if ctx.quick() else 9
    for k in range(n):
        spec = gen_spec(rng, max_n, max_n)
        route = rng.choice(core.ROUTES)
        op = rng.choice(PRIOR_OPS)
        try:
            t = core.build(spec, route)
            t = apply_prior(rng, t, op)
        except Exception as e:  # noqa  (not this property's business)
            ctx.count("build-skipped:%s" % type(e).__name__)
            continue
        g = gen_str(rng)
        d = gen_date(rng) if rng.random() < 0.97 else None
        if rng.random() < 0.08:
            alias_case(ctx, rng, t, rng.choice(DERIVATIONS), rng.choice(SAFE_EDITS), ("random", route, op))
            continue
        o = rand_opts(rng)
        r = run_case(ctx, t, g, d, tags=("random", route, op), label="random:%s:%s" % (route, op), want_text=True, opts=o)
        for key in ("poke", "direct_first", "profile"):
            if o.get(key):
                ctx.count("opt=" + key)
        ctx.count("writer=" + o["writer"])
        for e in o["extra"]:
            ctx.count("reader+" + e)
        if r is not None and rng.random() < 0.3:
            edit = rng.choice(INPLACE_EDITS)
            try:
                ok = apply_inplace_edit(rng, t, edit)
            except Exception as e:  # noqa  (the edit itself is not this property's business)
                ctx.count("edit-skipped:%s" % type(e).__name__)
                ok = False
            if ok:
                run_case(ctx, t, gen_str(rng), gen_date(rng), tags=("random", "history", edit, route, op),
                         label="history:%s:%s:%s" % (edit, route, op), opts=rand_opts(rng))
                ctx.count("history=" + edit)
        ctx.count("route=" + route)
        ctx.count("prior=" + op)
        nz = sum(1 for row in spec["rows"] for v in row if v != 0.0)
        zr = sum(1 for row in spec["rows"] if not any(row))
        ctx.count("shape=%s" % ("1x1" if len(spec["obs"]) * len(spec["samp"]) == 1 else
                                "single-row" if len(spec["obs"]) == 1 else
                                "single-col" if len(spec["samp"]) == 1 else "general"))
        ctx.count("pattern=%s" % ("all-zero" if nz == 0 else "dense" if nz == len(spec["obs"]) * len(spec["samp"]) else
                                  "zero-rows" if zr else "sparse"))
    for name in FIXED[:4]:
        t, g, d = build_fixed(name)
        run_case(ctx, t, g + " (again)", d, tags=("fixed", name, "end-of-run"), label=name)
        ctx.count("fixed-corpus-again")
    # the directory itself stays: it is shared with the other workers / concurrent runs of this check (removing it when it
    # happens to be empty raced with a worker about to create a file in it)


def replay(ctx, rec):
    """rebuild the table of a recorded case from its observation and run it again"""
    import numpy as np
    from biom import Table
    case = rec["case"]
    label = case.get("label") or ""
    if label in FIXED:
        t, g, d = build_fixed(label)
        run_case(ctx, t, g, d, tags=("replay", label), label=label)
        return
    cv = (case.get("opts") or {}).get("convert")
    if cv:
        import random
        convert_case(ctx, random.Random(0), cv["spec"], cv["fmt"], cv["flags"], mapping=cv.get("mapping"),
                     obs_mapping=cv.get("obs_mapping"), tags=("replay",), sub_env=cv.get("sub_env"))
        return
    inp = unxp(case["table"])
    case = dict(case, generated_by=unxp(case["generated_by"]))

    def from_j(j):
        if j is None or isinstance(j, bool):
            return j
        if "i" in j:
            return int(j["i"])
        if "n" in j:
            return float(core.unfrac(j["n"]))
        if "s" in j:
            return j["s"]
        if "a" in j:
            return [from_j(x) for x in j["a"]]
        return {k: from_j(v) for k, v in j["o"]}
    rows = np.array([[float(core.unfrac(x)) for x in r] for r in inp["rows"]], dtype=float).reshape(
        len(inp["obs"]), len(inp["samp"]))
    omd = [from_j(m) for m in inp["omd"]]
    smd = [from_j(m) for m in inp["smd"]]
    t = Table(rows, inp["obs"], inp["samp"], omd if any(m is not None for m in omd) else None,
              smd if any(m is not None for m in smd) else None, type=inp["type"],
              table_id=None if inp["table_id"] == "None" else inp["table_id"])
    d = datetime.datetime.fromisoformat(case["date"])
    run_case(ctx, t, case["generated_by"], d, tags=("replay",), label=label)
