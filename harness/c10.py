"""C10 — concatenation places every operand's block unchanged and pads with zeros.

Operand sets are generated (k = 1..4 tables, both axes, other axis identical / permuted / partially
missing / disjoint / mixed, metadata present or absent per operand and axis, every layout route,
operands with a history), the REAL `Table.concat` / `biom.concat` is run on them, operands and
result are observed by ID, and the Lean driver evaluates `C10.holds` on these observations and
compares the result with the model's."""
import copy
import json

from . import core

AXES = ["sample", "observation"]
MODES = ["identical", "permuted", "partial", "disjoint", "mixed"]
HISTS = ["none", "none", "copy", "filter_other", "sort_rev", "sort_axis_rev", "transposed", "concat_prior",
         "update_ids", "drop_md"]
EXACT = ("count", "smallcount", "dyadic", "neg")


# ----------------------------------------------------------------------------- building operands
def other_of(axis):
    return "observation" if axis == "sample" else "sample"


def make_spec(axis, aids, oids, grid, amd, omd, ttype):
    """grid: one vector per axis id, indexed like oids"""
    if axis == "observation":
        return {"obs": list(aids), "samp": list(oids), "rows": [list(v) for v in grid], "omd": amd, "smd": omd,
                "type": ttype}
    rows = [[grid[j][i] for j in range(len(aids))] for i in range(len(oids))]
    return {"obs": list(oids), "samp": list(aids), "rows": rows, "omd": omd, "smd": amd, "type": ttype}


def transpose_spec(spec):
    n, m = len(spec["obs"]), len(spec["samp"])
    return {"obs": spec["samp"], "samp": spec["obs"],
            "rows": [[spec["rows"][i][j] for i in range(n)] for j in range(m)],
            "omd": spec.get("smd"), "smd": spec.get("omd"), "type": spec.get("type")}


def sub_spec(spec, axis, idx):
    """the part of a spec with the axis positions `idx`"""
    s = copy.deepcopy(spec)
    if axis == "observation":
        s["obs"] = [spec["obs"][i] for i in idx]
        s["rows"] = [spec["rows"][i] for i in idx]
        if spec.get("omd") is not None:
            s["omd"] = [spec["omd"][i] for i in idx]
    else:
        s["samp"] = [spec["samp"][i] for i in idx]
        s["rows"] = [[r[i] for i in idx] for r in spec["rows"]]
        if spec.get("smd") is not None:
            s["smd"] = [spec["smd"][i] for i in idx]
    return s


def build_operand(rec, axis):
    """materialise one operand recipe {spec, route, hist} as a real Table"""
    spec, route, hist = rec["spec"], rec["route"], rec["hist"]
    if len(spec["obs"]) * len(spec["samp"]) == 0 and route in ("dense", "sort_roundtrip", "transpose2", "lil"):
        route = "csr"   # empty dense input takes a constructor short-cut that loses the shape (see check_case)
    oth = other_of(axis)
    key = "obs" if axis == "observation" else "samp"
    okey = "samp" if axis == "observation" else "obs"
    if hist == "transposed":
        t = core.build(transpose_spec(spec), route).transpose()
        t.type = spec.get("type")
        return t
    if hist == "concat_prior" and len(spec[key]) >= 2:
        h = len(spec[key]) // 2
        a = core.build(sub_spec(spec, axis, list(range(h))), route)
        b = core.build(sub_spec(spec, axis, list(range(h, len(spec[key])))), "dense")
        return a.concat([b], axis=axis)
    if hist == "update_ids" and len(spec[key]) >= 1:
        tmp = copy.deepcopy(spec)
        tmp[key] = ["tmp%d" % i for i in range(len(spec[key]))]
        t = core.build(tmp, route)
        return t.update_ids(dict(zip(tmp[key], spec[key])), axis=axis, inplace=False)
    t = core.build(spec, route)
    if hist == "copy":
        return t.copy()
    if hist == "filter_other" and len(spec[okey]) >= 2:
        return t.filter([spec[okey][0]], axis=oth, invert=True, inplace=False)
    if hist == "sort_rev" and len(spec[okey]) >= 1:
        return t.sort_order(list(reversed(spec[okey])), axis=oth)
    if hist == "sort_axis_rev" and len(spec[key]) >= 1:
        return t.sort_order(list(reversed(spec[key])), axis=axis)
    if hist == "drop_md":
        t = t.copy()
        t.del_metadata(axis=oth)
        return t
    return t


def gen_md_mixed(rng, ids, tag):
    """metadata whose values differ between operands (tag), with an occasional empty entry"""
    kind = rng.choice(["none", "none", "text", "num", "tax", "mixed"])
    if kind == "none" or not ids:
        return None
    md = core.gen_md(rng, ids, kind)
    for e in md:
        e["src"] = tag
    if len(md) > 1 and rng.random() < 0.25:
        md[rng.randrange(len(md))] = {}
    return md


def gen_case(rng, quick, force=None):
    """an operand-set recipe"""
    force = force or {}
    axis = force.get("axis", rng.choice(AXES))
    k = force.get("k", rng.choice([1, 2, 2, 2, 3, 3, 4]))
    mode = force.get("mode", rng.choice(MODES))
    overlap = force.get("overlap", rng.random() < 0.12 and k >= 2)
    alphabet = rng.choice(["mixed", "mixed", "ascii"])
    apool = core.gen_ids(rng, 16, "A" if axis == "sample" else "R", alphabet)
    max_a = 3 if quick else 5
    max_o = 5 if quick else 8
    universe = core.gen_ids(rng, rng.randint(1, max_o), "x", alphabet)
    if rng.random() < 0.3:
        # ids whose sorted order differs from every "natural" reading
        universe = rng.sample(["10", "2", "1", "Z", "a", "B", "b10", "b9", "é", "z", "µ", "日本", "a b", "a.b", "_"],
                              min(len(universe), 15))
    classes = rng.choice([("count",), ("smallcount",), ("dyadic",), ("count", "neg"), ("dyadic", "neg", "count"),
                          ("big", "tiny", "bits")])
    ops = []
    used = 0
    dis_pool = list(universe) + core.gen_ids(rng, 16, "y", alphabet)
    dis_used = 0
    for i in range(k):
        na = rng.choice([0, 1, 1, 2, 2, 3, max_a]) if rng.random() < 0.9 else 1
        aids = apool[used:used + na]
        used += na
        m = mode if mode != "mixed" else rng.choice(["identical", "permuted", "partial", "disjoint"])
        if m == "identical":
            oids = list(universe)
        elif m == "permuted":
            oids = list(universe)
            rng.shuffle(oids)
        elif m == "partial":
            oids = [x for x in universe if rng.random() < 0.6]
            if rng.random() < 0.5:
                rng.shuffle(oids)
        else:
            no = rng.randint(0 if rng.random() < 0.1 else 1, 3)
            oids = dis_pool[dis_used:dis_used + no]
            dis_used += no
        grid = core.gen_grid(rng, len(aids), len(oids), None, classes) if aids and oids else [[] for _ in aids]
        amd = gen_md_mixed(rng, aids, "t%d" % i)
        omd = gen_md_mixed(rng, oids, "t%d" % i)
        spec = make_spec(axis, aids, oids, grid, amd, omd, rng.choice(core.TYPES))
        ops.append({"spec": spec, "route": rng.choice(core.ROUTES), "hist": rng.choice(HISTS)})
    if overlap and k >= 2:
        key = "obs" if axis == "observation" else "samp"
        donors = [i for i in range(k) if ops[i]["spec"][key]]
        if donors:
            i = rng.choice(donors)
            j = rng.choice([x for x in range(k) if x != i])
            sj = ops[j]["spec"]
            if not sj[key]:
                # give the receiver one vector first
                j_ids = [apool[used]]
                used += 1
                okey = "samp" if axis == "observation" else "obs"
                grid = [[1.0] * len(sj[okey])]
                amd = None
                ops[j]["spec"] = make_spec(axis, j_ids, sj[okey], grid, amd,
                                           sj["smd"] if axis == "observation" else sj["omd"], sj["type"])
                sj = ops[j]["spec"]
            pos = rng.randrange(len(sj[key]))
            sj[key] = list(sj[key])
            sj[key][pos] = rng.choice(ops[i]["spec"][key])
            for o in ops:
                if o["hist"] in ("concat_prior", "update_ids"):
                    o["hist"] = "none"
    single = (k == 2 and rng.random() < 0.4)
    entry = force.get("entry", rng.choice(["method", "method", "module"]))
    return {"axis": axis, "ops": ops, "mode": "single" if (single and entry == "method") else "list",
            "entry": entry, "default_axis": axis == "sample" and rng.random() < 0.3, "exact": set(classes) <= set(EXACT)}


# ----------------------------------------------------------------------------- running the real code
def run_real(tables, axis, mode, entry, default_axis=False):
    import biom
    kw = {} if default_axis else {"axis": axis}
    try:
        if entry == "module":
            r = biom.concat(list(tables), **kw)
        elif mode == "single":
            r = tables[0].concat(tables[1], **kw)
        else:
            r = tables[0].concat(list(tables[1:]), **kw)
    except Exception as e:  # noqa
        return {"error": core.err_name(e)}, None
    return {"ok": core.table_obs(r)}, r


def slim(o):
    return {k: o[k] for k in ("obs", "samp", "rows", "omd", "smd", "type")}


def branches(tobs, axis):
    """which branch of the second loop every operand takes (for the distribution only)"""
    okey = "samp" if axis == "observation" else "obs"
    union = sorted(set(x for t in tobs for x in t[okey]))
    out = []
    for t in tobs:
        if set(t[okey]) != set(union):
            out.append("pad")
        elif t[okey] != union:
            out.append("resort")
        else:
            out.append("asis")
    return out


def check_case(ctx, recipe, tags=()):
    axis = recipe["axis"]
    try:
        tables = [build_operand(o, axis) for o in recipe["ops"]]
    except Exception as e:  # an operand that cannot be built is a generator problem, not a case
        ctx.count("skipped-unbuildable:" + type(e).__name__)
        return None
    for i, t in enumerate(tables):
        if tuple(t.shape) != (len(t.ids(axis="observation")), len(t.ids())):
            # Table(np.zeros((0, 1)), [], ['x']) keeps a 0x0 matrix next to one ID (constructor short-cut for
            # empty dense input): not a table of the C01 domain; the same content goes in through scipy instead
            tables[i] = build_operand(dict(recipe["ops"][i], route="csr", hist="none"), axis)
            ctx.count("degenerate-dense-rebuilt-as-csr")
    tobs = [slim(core.table_obs(t)) for t in tables]
    res, r = run_real(tables, axis, recipe["mode"], recipe["entry"], recipe.get("default_axis", False))
    req = {"axis": axis, "tables": tobs, "mode": recipe["mode"], "entry": recipe["entry"],
           "result": {"ok": slim(res["ok"])} if "ok" in res else res}
    case = {"recipe": dict(recipe, exact=bool(recipe.get("exact"))), "req": req}
    key = "obs" if axis == "observation" else "samp"
    br = branches(tobs, axis)
    k = len(tobs)
    nontrivial = k >= 2 and ("error" in res or any(b != "asis" for b in br) or any(t[key] for t in tobs[1:]))
    ctx.case({"axis": axis, "tables": tobs, "mode": recipe["mode"], "entry": recipe["entry"]}, nontrivial=nontrivial)
    ans = ctx.driver.ask(req)
    ctx.count("k=%d" % k)
    ctx.count("axis=" + axis)
    ctx.count("outcome=" + ("ok" if "ok" in res else res["error"]))
    for b in set(br):
        ctx.count("branch=" + b)
    ctx.count("entry=%s/%s" % (recipe["entry"], recipe["mode"]))
    if any(t["omd"] is not None or t["smd"] is not None for t in tobs):
        ctx.count("with-metadata")
    tags = list(tags) + ["axis=" + axis, "k=%d" % k] + ["branch=" + b for b in sorted(set(br))]
    if not ans.get("model_holds", True):
        ctx.diverge(case, "theorem model_holds contradicted by the driver", tags, detail={"model": ans["model"]})
    if not ans["holds"]:
        ctx.fail(case, ans["clause"], tags, detail={"model": ans["model"]})
        return ans
    if not ans["agree"]:
        ctx.diverge(case, "result differs from the model (other-axis order/metadata, type or error class)", tags,
                    detail={"model": ans["model"]})
    # the library's own sum() agrees with the operands' (values chosen so that float sums are exact)
    if r is not None and recipe.get("exact"):
        if float(r.sum()) != float(sum(float(t.sum()) for t in tables)):
            ctx.fail(case, "grand-total-sum-api", tags)
    return ans


# ----------------------------------------------------------------------------- fixed corpus
def fixed_corpus():
    out = []
    # the docstring example (observation ids overlap between a and c, samples disjoint)
    a = {"obs": ["O1", "O2"], "samp": ["S1", "S2", "S3"], "rows": [[0.0, 1.0, 2.0], [3.0, 4.0, 5.0]],
         "omd": [{"taxonomy": "foo"}, {"taxonomy": "bar"}], "smd": None, "type": None}
    b = {"obs": ["O3", "O4"], "samp": ["S4", "S5", "S6"], "rows": [[6.0, 7.0, 8.0], [9.0, 10.0, 11.0]],
         "omd": [{"taxonomy": "baz"}, {"taxonomy": "foobar"}], "smd": None, "type": None}
    c = {"obs": ["O1", "O5"], "samp": ["S7", "S8", "S9"], "rows": [[12.0, 13.0, 14.0], [15.0, 16.0, 17.0]],
         "omd": [{"taxonomy": "foo"}, {"taxonomy": "biz"}], "smd": None, "type": None}

    def ops(specs, routes=None, hists=None):
        return [{"spec": copy.deepcopy(s), "route": (routes or ["dense"] * len(specs))[i],
                 "hist": (hists or ["none"] * len(specs))[i]} for i, s in enumerate(specs)]

    for entry in ("method", "module"):
        out.append({"axis": "sample", "ops": ops([a, b, c]), "mode": "list", "entry": entry, "exact": True})
    # observation axis of the same three is refused (O1 in a and c)
    out.append({"axis": "observation", "ops": ops([a, b, c]), "mode": "list", "entry": "method", "exact": True})
    # same other-axis set, different order, nothing missing: only the re-sort branch
    p = {"obs": ["o2", "o1", "o3"], "samp": ["s1", "s2"], "rows": [[1.0, 2.0], [3.0, 4.0], [5.0, 6.0]],
         "omd": [{"k": "p2"}, {"k": "p1"}, {"k": "p3"}], "smd": [{"d": 1}, {"d": 2}], "type": "OTU table"}
    q = {"obs": ["o3", "o2", "o1"], "samp": ["s3"], "rows": [[7.0], [8.0], [9.0]],
         "omd": None, "smd": [{"d": 3}], "type": None}
    for mode in ("single", "list"):
        out.append({"axis": "sample", "ops": ops([p, q], ["csr", "csc"]), "mode": mode, "entry": "method", "exact": True})
    out.append({"axis": "observation", "ops": ops([transpose_spec(p), transpose_spec(q)]), "mode": "single",
                "entry": "method", "exact": True})
    # padding for the FIRST operand only, and for a middle operand only
    r1 = {"obs": ["b"], "samp": ["x1"], "rows": [[1.0]], "omd": None, "smd": None, "type": None}
    r2 = {"obs": ["c", "a", "b"], "samp": ["x2", "x3"], "rows": [[2.0, 3.0], [4.0, 5.0], [6.0, 7.0]],
          "omd": [{"m": "c"}, {"m": "a"}, {"m": "b"}], "smd": None, "type": None}
    r3 = {"obs": ["a", "b", "c"], "samp": ["x4"], "rows": [[8.0], [9.0], [10.0]], "omd": None,
          "smd": [{"z": 1}], "type": None}
    out.append({"axis": "sample", "ops": ops([r1, r2, r3]), "mode": "list", "entry": "method", "exact": True})
    out.append({"axis": "sample", "ops": ops([r3, r1, r2]), "mode": "list", "entry": "module", "exact": True})
    out.append({"axis": "sample", "ops": ops([r2, r3, r1, ]), "mode": "list", "entry": "method", "exact": True})
    # overlap only between the 2nd and 3rd operand (not with the receiver)
    r4 = {"obs": ["a"], "samp": ["x2"], "rows": [[1.0]], "omd": None, "smd": None, "type": None}
    out.append({"axis": "sample", "ops": ops([r1, r2, r4]), "mode": "list", "entry": "method", "exact": True})
    out.append({"axis": "sample", "ops": ops([r1, r4, r2]), "mode": "list", "entry": "module", "exact": True})
    # single operand / empty list
    out.append({"axis": "sample", "ops": ops([r2]), "mode": "list", "entry": "method", "exact": True})
    out.append({"axis": "observation", "ops": ops([r2]), "mode": "list", "entry": "module", "exact": True})
    # empty operands
    e0 = {"obs": ["a", "d"], "samp": [], "rows": [[], []], "omd": None, "smd": None, "type": None}
    e1 = {"obs": [], "samp": ["x9"], "rows": [], "omd": None, "smd": None, "type": None}
    e2 = {"obs": [], "samp": [], "rows": [], "omd": None, "smd": None, "type": None}
    for ax in AXES:
        out.append({"axis": ax, "ops": ops([r2, e0]), "mode": "single", "entry": "method", "exact": True})
        out.append({"axis": ax, "ops": ops([e1, r3]), "mode": "list", "entry": "method", "exact": True})
        out.append({"axis": ax, "ops": ops([e2, r2, e2]), "mode": "list", "entry": "module", "exact": True})
    return out


def edge_stream(ctx):
    """outside the property's domain: only the error class is compared with the model"""
    import biom
    t = core.build({"obs": ["a"], "samp": ["x"], "rows": [[1.0]], "omd": None, "smd": None, "type": None})
    o = slim(core.table_obs(t))
    for axis in ("foo", "Sample", "", "both"):
        try:
            t.concat([t.copy()], axis=axis)
            res = {"ok": o}
        except Exception as e:  # noqa
            res = {"error": core.err_name(e)}
        req = {"axis": axis, "tables": [o, o], "mode": "list", "entry": "method", "result": res}
        ctx.case(req, nontrivial=False)
        ans = ctx.driver.ask(req)
        ctx.count("edge=bad-axis")
        if not ans["holds"]:
            ctx.diverge({"req": req}, "edge: unknown axis not refused as the model says", ["edge"])
    try:
        biom.concat([])
        res = {"ok": o}
    except Exception as e:  # noqa
        res = {"error": core.err_name(e)}
    req = {"axis": "sample", "tables": [], "mode": "list", "entry": "module", "result": res}
    ctx.case(req, nontrivial=False)
    ans = ctx.driver.ask(req)
    ctx.count("edge=empty-list")
    if not ans["holds"]:
        ctx.diverge({"req": req}, "edge: biom.concat([]) differs from the model", ["edge"])


# ----------------------------------------------------------------------------- entry points
def run(ctx):
    ctx.rule = ("operand sets: k in 1..4, axis in {sample, observation}, other axis identical/permuted/partially "
                "missing/disjoint/mixed, per-operand metadata on either axis or none, 9 layout routes, operand "
                "histories (copy, filter, sort_order on either axis, transpose, prior concat, update_ids, "
                "del_metadata), single table vs list, Table.concat vs biom.concat, 12% with an ID shared by two "
                "operands. Distinct = distinct (axis, operand observations, mode, entry); non-trivial = k >= 2 and "
                "(refused, or some operand padded/re-sorted, or a later operand contributes vectors).")
    ctx.assumptions = ["values cross as exact rationals; concat computes nothing, so totals are compared exactly over "
                       "Rat; the library's float sum() is compared only for integer/dyadic value classes",
                       "the iteration order of Python's set of missing IDs is not observed (erased by sort_order; "
                       "Lean: padSort_missing_order)"]
    for rec in fixed_corpus():
        check_case(ctx, rec, tags=["fixed-corpus"])
    edge_stream(ctx)
    rng = ctx.rng
    quick = ctx.quick()
    # systematic sweep: every (axis, k, mode, entry) combination at least a few times
    reps = 2 if quick else 12
    for axis in AXES:
        for k in (1, 2, 3, 4):
            for mode in MODES:
                for entry in ("method", "module"):
                    for _ in range(reps):
                        check_case(ctx, gen_case(rng, quick, {"axis": axis, "k": k, "mode": mode, "entry": entry,
                                                               "overlap": False}))
                for _ in range(reps):
                    if k >= 2:
                        check_case(ctx, gen_case(rng, quick, {"axis": axis, "k": k, "mode": mode, "overlap": True}))
    budget = 38 if quick else 540
    n = 0
    limit = 5000 if quick else 120000
    while n < limit and ctx.time_left(budget) > 0:
        check_case(ctx, gen_case(rng, quick))
        n += 1


def replay(ctx, rec):
    case = rec["case"]
    if "recipe" in case:
        recipe = case["recipe"]
        ans = check_case(ctx, recipe, tags=["replay"])
        ctx.notes.append("replayed recipe: %s" % json.dumps(ans, ensure_ascii=False)[:600])
    else:
        ans = ctx.driver.ask(case["req"])
        ctx.notes.append("replayed stored request only: %s" % json.dumps(ans, ensure_ascii=False)[:600])
        if not ans["holds"]:
            ctx.fail(case, ans["clause"], ["replay"])
