"""C10 — concatenation places every operand's block unchanged and pads with zeros.

Operand sets are generated (k = 1..4 tables, both axes, other axis identical / permuted / partially
missing / disjoint / mixed, metadata present or absent per operand and axis, every layout route,
operands with a history), the REAL `Table.concat` / `biom.concat` is run on them, operands and
result are observed by ID, and the Lean driver evaluates `C10.holds` on these observations and
compares the result with the model's."""
import copy
import json
import random
import warnings

from . import core

AXES = ["sample", "observation"]
MODES = ["identical", "permuted", "partial", "disjoint", "mixed"]
HISTS = ["none", "none", "copy", "filter_other", "sort_rev", "sort_axis_rev", "transposed", "concat_prior",
         "update_ids", "drop_md", "swap_other", "rotate_other_ip", "swap_axis_ip", "rotate_axis", "transpose2x"]
# table -> table steps that may follow the first one (an operand's history is a string or a list of steps)
STEPS = ["copy", "filter_other", "sort_rev", "sort_axis_rev", "drop_md", "transpose2x", "swap_other", "swap_other_ip",
         "rotate_other", "rotate_other_ip", "reverse_other_ip", "swap_axis", "swap_axis_ip", "rotate_axis",
         "rotate_axis_ip"]
EXACT = ("count", "smallcount", "dyadic", "neg")


# ----------------------------------------------------------------------------- building operands
def other_of(axis):
    return "observation" if axis == "sample" else "sample"


def make_spec(axis, aids, oids, grid, amd, omd, ttype):
    """grid: one vector per axis id, indexed like oids"""
    if axis == "observation":
        return {"obs": list(aids), "samp": list(oids), "rows": [list(v) for v in grid], "omd": amd, "smd": omd,
                "type": ttype}
    rows = [[grid[j][i] for j in range(len(aids))] for i in range(len(oids))]
    return {"obs": list(oids), "samp": list(aids), "rows": rows, "omd": omd, "smd": amd, "type": ttype}


def transpose_spec(spec):
    n, m = len(spec["obs"]), len(spec["samp"])
    return {"obs": spec["samp"], "samp": spec["obs"],
            "rows": [[spec["rows"][i][j] for i in range(n)] for j in range(m)],
            "omd": spec.get("smd"), "smd": spec.get("omd"), "type": spec.get("type")}


def sub_spec(spec, axis, idx):
    """the part of a spec with the axis positions `idx`"""
    s = copy.deepcopy(spec)
    if axis == "observation":
        s["obs"] = [spec["obs"][i] for i in idx]
        s["rows"] = [spec["rows"][i] for i in idx]
        if spec.get("omd") is not None:
            s["omd"] = [spec["omd"][i] for i in idx]
    else:
        s["samp"] = [spec["samp"][i] for i in idx]
        s["rows"] = [[r[i] for i in idx] for r in spec["rows"]]
        if spec.get("smd") is not None:
            s["smd"] = [spec["smd"][i] for i in idx]
    return s


def relabel(t, ax, kind, inplace):
    """update_ids with a map INSIDE the current label set (swap / rotation / reversal): every new label is also an
    old label that the same map renames"""
    ids = [str(i) for i in t.ids(axis=ax)]
    if len(ids) < 2:
        return t
    if kind == "swap":
        m = {ids[0]: ids[-1], ids[-1]: ids[0]}
    elif kind == "rotate":
        m = {ids[i]: ids[(i + 1) % len(ids)] for i in range(len(ids))}
    else:
        m = {ids[i]: ids[len(ids) - 1 - i] for i in range(len(ids))}
    m = {a: b for a, b in m.items() if a != b}
    if not m:
        return t
    if inplace:
        t.update_ids(m, axis=ax, strict=False, inplace=True)
        return t
    return t.update_ids(m, axis=ax, strict=False, inplace=False)


def apply_step(t, step, axis):
    """one table -> table step of an operand's history, on the table's CURRENT ids"""
    oth = other_of(axis)
    oids = [str(i) for i in t.ids(axis=oth)]
    aids = [str(i) for i in t.ids(axis=axis)]
    if step == "copy":
        return t.copy()
    if step == "filter_other" and len(oids) >= 2:
        return t.filter([oids[0]], axis=oth, invert=True, inplace=False)
    if step == "sort_rev" and oids and aids:
        return t.sort_order(list(reversed(oids)), axis=oth)
    if step == "sort_axis_rev" and aids and oids:
        return t.sort_order(list(reversed(aids)), axis=axis)
    if step == "drop_md":
        t = t.copy()
        t.del_metadata(axis=oth)
        return t
    if step == "transpose2x":
        ty = t.type
        t = t.transpose().transpose()
        t.type = ty
        return t
    for kind in ("swap", "rotate", "reverse"):
        for which, ax in (("other", oth), ("axis", axis)):
            if step in ("%s_%s" % (kind, which), "%s_%s_ip" % (kind, which)):
                return relabel(t, ax, kind, step.endswith("_ip"))
    return t


def build_operand(rec, axis):
    """materialise one operand recipe {spec, route, hist} as a real Table; hist = first step or list of steps"""
    spec, route, hist = rec["spec"], rec["route"], rec["hist"]
    steps = [hist] if isinstance(hist, str) else list(hist)
    first, rest = (steps[0] if steps else "none"), steps[1:]
    if len(spec["obs"]) * len(spec["samp"]) == 0 and route in ("dense", "sort_roundtrip", "transpose2", "lil"):
        route = "csr"   # empty dense input takes a constructor short-cut that loses the shape (see check_case)
    key = "obs" if axis == "observation" else "samp"
    if first == "transposed":
        t = core.build(transpose_spec(spec), route).transpose()
        t.type = spec.get("type")
    elif first == "concat_prior" and len(spec[key]) >= 2:
        h = len(spec[key]) // 2
        a = core.build(sub_spec(spec, axis, list(range(h))), route)
        b = core.build(sub_spec(spec, axis, list(range(h, len(spec[key])))), "dense")
        t = a.concat([b], axis=axis)
    elif first == "update_ids" and len(spec[key]) >= 1:
        tmp = copy.deepcopy(spec)
        tmp[key] = ["tmp%d" % i for i in range(len(spec[key]))]
        t = core.build(tmp, route)
        t = t.update_ids(dict(zip(tmp[key], spec[key])), axis=axis, inplace=False)
    else:
        t = apply_step(core.build(spec, route), first, axis)
    for st in rest:
        if min(t.shape) == 0:
            break
        t = apply_step(t, st, axis)
    return t


def gen_md_mixed(rng, ids, tag):
    """metadata whose values differ between operands (tag), with an occasional empty entry"""
    kind = rng.choice(["none", "none", "text", "num", "tax", "mixed"])
    if kind == "none" or not ids:
        return None
    md = core.gen_md(rng, ids, kind)
    for e in md:
        e["src"] = tag
    if len(md) > 1 and rng.random() < 0.25:
        md[rng.randrange(len(md))] = {}
    return md


def gen_case(rng, quick, force=None):
    """an operand-set recipe"""
    force = force or {}
    axis = force.get("axis", rng.choice(AXES))
    k = force.get("k", rng.choice([1, 2, 2, 2, 3, 3, 4]))
    mode = force.get("mode", rng.choice(MODES))
    overlap = force.get("overlap", rng.random() < 0.12 and k >= 2)
    alphabet = rng.choice(["mixed", "mixed", "ascii"])
    apool = core.gen_ids(rng, 16, "A" if axis == "sample" else "R", alphabet)
    max_a = 3 if quick else 5
    max_o = 5 if quick else 8
    universe = core.gen_ids(rng, rng.randint(1, max_o), "x", alphabet)
    if rng.random() < 0.3:
        # ids whose sorted order differs from every "natural" reading
        universe = rng.sample(["10", "2", "1", "Z", "a", "B", "b10", "b9", "é", "z", "µ", "日本", "a b", "a.b", "_"],
                              min(len(universe), 15))
    idstyle = force.get("idstyle", rng.choice(["plain", "plain", "plain", "tricky"]))
    if idstyle == "tricky":
        # IDs live in fixed-width numpy arrays: near-duplicates (extension, prefix, case, blank), an ID ending in a
        # newline, IDs much longer than the others (they enter operands through padding / concatenation), non-ASCII
        base = core.gen_ids(rng, 3, "x", alphabet)
        var = core.tricky_unknown_ids(base) + [base[0] + "\n", base[1] + "é日本", "x" + "L" * 40]
        # the same text in two Unicode spellings (NFC / NFD) are DISTINCT IDs; line separators other than \n; '%' and
        # a leading double quote; a text that is also an ID of the other axis
        odd = ["x\u00e9", "xe\u0301", "x\u2028y", "x\u0085y", "x%s%d", '"xq', "x\u2029"]
        var += rng.sample(odd, 3)
        rng.shuffle(var)
        universe = list(dict.fromkeys(base[:2] + var))[:max(3, len(universe))]
        rng.shuffle(universe)
        abase = core.gen_ids(rng, 3, "A" if axis == "sample" else "R", alphabet)
        avar = core.tricky_unknown_ids(abase) + [abase[0] + "\n", abase[1] + "µµµ", abase[0] + "_" * 30]
        avar += [abase[0] + "\u00e9", abase[0] + "e\u0301", abase[1] + "\u2028", '"' + abase[2], abase[2] + "%"]
        avar += universe[:2]          # names shared by both axes
        rng.shuffle(avar)
        apool = list(dict.fromkeys(abase + avar + apool))
    classes = rng.choice([("count",), ("smallcount",), ("dyadic",), ("count", "neg"), ("dyadic", "neg", "count"),
                          ("big", "tiny", "bits")])
    ops = []
    used = 0
    dis_pool = list(universe) + core.gen_ids(rng, 16, "y", alphabet)
    dis_used = 0
    for i in range(k):
        na = rng.choice([0, 1, 1, 2, 2, 3, max_a]) if rng.random() < 0.9 else 1
        aids = apool[used:used + na]
        used += na
        m = mode if mode != "mixed" else rng.choice(["identical", "permuted", "partial", "disjoint"])
        if m == "identical":
            oids = list(universe)
        elif m == "permuted":
            oids = list(universe)
            rng.shuffle(oids)
        elif m == "partial":
            oids = [x for x in universe if rng.random() < 0.6]
            if rng.random() < 0.5:
                rng.shuffle(oids)
        else:
            no = rng.randint(0 if rng.random() < 0.1 else 1, 3)
            oids = dis_pool[dis_used:dis_used + no]
            dis_used += no
        grid = core.gen_grid(rng, len(aids), len(oids), None, classes) if aids and oids else [[] for _ in aids]
        amd = gen_md_mixed(rng, aids, "t%d" % i)
        omd = gen_md_mixed(rng, oids, "t%d" % i)
        spec = make_spec(axis, aids, oids, grid, amd, omd, rng.choice(core.TYPES))
        hist = [rng.choice(HISTS)]
        if rng.random() < 0.4:
            hist += [rng.choice(STEPS) for _ in range(rng.randint(1, 2))]
        ops.append({"spec": spec, "route": rng.choice(core.ROUTES), "hist": hist if len(hist) > 1 else hist[0]})
    if overlap and k >= 2:
        key = "obs" if axis == "observation" else "samp"
        donors = [i for i in range(k) if ops[i]["spec"][key]]
        if donors:
            i = rng.choice(donors)
            j = rng.choice([x for x in range(k) if x != i])
            sj = ops[j]["spec"]
            if not sj[key]:
                # give the receiver one vector first
                j_ids = [apool[used]]
                used += 1
                okey = "samp" if axis == "observation" else "obs"
                grid = [[1.0] * len(sj[okey])]
                amd = None
                ops[j]["spec"] = make_spec(axis, j_ids, sj[okey], grid, amd,
                                           sj["smd"] if axis == "observation" else sj["omd"], sj["type"])
                sj = ops[j]["spec"]
            pos = rng.randrange(len(sj[key]))
            sj[key] = list(sj[key])
            sj[key][pos] = rng.choice(ops[i]["spec"][key])
            for o in ops:
                h = o["hist"] if isinstance(o["hist"], list) else [o["hist"]]
                if h[0] in ("concat_prior", "update_ids"):
                    o["hist"] = ["none"] + h[1:]
    single = (k == 2 and rng.random() < 0.4)
    entry = force.get("entry", rng.choice(["method", "method", "module"]))
    rec = {"axis": axis, "ops": ops, "mode": "single" if (single and entry == "method") else "list",
           "entry": entry, "default_axis": axis == "sample" and rng.random() < 0.3, "exact": set(classes) <= set(EXACT)}
    rec.update(gen_hardening(rng))
    return rec


def gen_hardening(rng):
    """what surrounds the call: layout left behind by earlier reads, error profile, spelling of the axis argument,
    what happens to the live tables afterwards"""
    return {"poke": rng.randrange(1 << 30) if rng.random() < 0.6 else None,
            "profile": rng.choice([None] * 7 + ["warn", "call", "raise"]),
            "axis_pos": rng.random() < 0.2,
            "post": rng.choice([None] * 5 + ["mutate_result", "mutate_operand", "altcall", "reuse_list", "reuse_list"]),
            "container": "tuple" if rng.random() < 0.05 else "list",
            "post_seed": rng.randrange(1 << 30)}


def gen_many(rng, axis, k, entry, overlap=None):
    """MANY small operands (operand-count thresholds): k tables with 1-2 IDs each on the axis, partly overlapping
    other-axis IDs, metadata on some; `overlap` = None | "last-first" | "random" repeats an axis ID in two tables"""
    universe = core.gen_ids(rng, rng.randint(3, 6), "x", "ascii")
    ops = []
    for i in range(k):
        aids = ["%s%d_%d" % ("A" if axis == "sample" else "R", i, j) for j in range(rng.choice([1, 1, 2]))]
        oids = [x for x in universe if rng.random() < 0.7] or [universe[0]]
        if i == k - 1 and rng.random() < 0.5:
            oids.append("xonly-last")              # an other-axis ID that only the last table has
        rng.shuffle(oids)
        grid = core.gen_grid(rng, len(aids), len(oids), 0.7, ("count",))
        spec = make_spec(axis, aids, oids, grid, gen_md_mixed(rng, aids, "t%d" % i) if rng.random() < 0.5 else None,
                         None, rng.choice(core.TYPES) if i == 0 else None)
        ops.append({"spec": spec, "route": rng.choice(["dense", "csr", "csc"]), "hist": "none"})
    if overlap and k >= 2:
        key = "obs" if axis == "observation" else "samp"
        i, j = (0, k - 1) if overlap == "last-first" else sorted(rng.sample(range(k), 2))
        ops[j]["spec"][key] = list(ops[j]["spec"][key])
        ops[j]["spec"][key][-1] = ops[i]["spec"][key][0]
    rec = {"axis": axis, "ops": ops, "mode": "list", "entry": entry, "exact": True}
    rec.update(gen_hardening(rng))
    rec["post"] = "reuse_list" if (k <= 40 and rng.random() < 0.15) else None
    rec["container"] = "list"
    return rec


def gen_wide(rng, axis, wide_on, n_wide=None, padded=None, entry=None):
    """large operand sets: 64..320 IDs on the other axis (non-lexicographic order; padded or not) or on the
    concatenation axis; size-gated code paths seen so far switch at 64, 128 and 256 IDs"""
    k = rng.choice([2, 3])
    n_wide = n_wide or rng.choice([64, 70, 100, 130, 200, 257, 300])
    padded = rng.random() < 0.5 if padded is None else padded
    ops = []
    if wide_on == "other":
        universe = ["W%d" % i for i in range(n_wide)]      # "W10" < "W2": numeric order is not sorted order
        for i in range(k):
            oids = [x for x in universe if rng.random() < 0.93] if padded else list(universe)
            style = rng.choice(["shuffle", "numeric", "reversed", "sorted"]) if i else rng.choice(["shuffle", "numeric"])
            if style == "shuffle":
                rng.shuffle(oids)
            elif style == "reversed":
                oids = sorted(oids, reverse=True)
            elif style == "sorted":
                oids = sorted(oids)
            aids = ["%s%d_%d" % ("A" if axis == "sample" else "R", i, j) for j in range(rng.randint(1, 2))]
            grid = core.gen_grid(rng, len(aids), len(oids), 0.5, ("count",))
            spec = make_spec(axis, aids, oids, grid, gen_md_mixed(rng, aids, "t%d" % i),
                             gen_md_mixed(rng, oids, "t%d" % i) if rng.random() < 0.3 else None, None)
            ops.append({"spec": spec, "route": rng.choice(core.ROUTES),
                        "hist": rng.choice(["none", "none", "rotate_other_ip", "swap_other", "transpose2x"])})
    else:
        universe = ["w1", "w0", "w2"]
        for i in range(k):
            oids = list(universe)
            rng.shuffle(oids)
            if padded:
                oids = oids[:2]
            aids = ["%s%d_%d" % ("A" if axis == "sample" else "R", i, j) for j in range(n_wide if i < 2 else 3)]
            rng.shuffle(aids)
            grid = core.gen_grid(rng, len(aids), len(oids), 0.5, ("count",))
            spec = make_spec(axis, aids, oids, grid, gen_md_mixed(rng, aids, "t%d" % i) if rng.random() < 0.5 else None,
                             None, None)
            ops.append({"spec": spec, "route": rng.choice(core.ROUTES), "hist": rng.choice(["none", "swap_axis_ip"])})
    rec = {"axis": axis, "ops": ops, "mode": "list", "entry": entry or rng.choice(["method", "module"]), "exact": True}
    rec.update(gen_hardening(rng))
    rec["post"] = rng.choice([None, "altcall", "reuse_list"]) if n_wide <= 130 else None
    rec["container"] = "list"
    return rec


# ----------------------------------------------------------------------------- running the real code
def call_concat(receiver, arg, axis, entry, default_axis=False, axis_pos=False):
    """`arg` is the caller-owned object handed to the library: the others (list/tuple), one bare Table, or for the
    module entry the sequence of all tables"""
    import biom
    if default_axis and axis == "sample":
        args, kw = (), {}
    elif axis_pos:
        args, kw = (axis,), {}
    else:
        args, kw = (), {"axis": axis}
    if entry == "module":
        return biom.concat(arg, *args, **kw)
    return receiver.concat(arg, *args, **kw)


def run_real(receiver, arg, axis, entry, default_axis=False, axis_pos=False, profile=None):
    """run the real method (optionally under a non-default error profile); returns (outcome, table, profile_ok)"""
    import biom.err as E
    before = dict(E.geterr())
    old_cb = None
    inside_ok = True
    try:
        if profile is None:
            r = call_concat(receiver, arg, axis, entry, default_axis, axis_pos)
        else:
            if profile == "call":
                old_cb = E.geterrcall("empty")
                E.seterrcall("empty", lambda item: None)
            with warnings.catch_warnings():
                warnings.simplefilter("ignore")
                with E.errstate(empty=profile):
                    try:
                        r = call_concat(receiver, arg, axis, entry, default_axis, axis_pos)
                    finally:
                        # the call itself must leave the profile in force as it found it
                        inside_ok = dict(E.geterr()) == dict(before, empty=profile)
    except Exception as e:  # noqa
        out, r = {"error": core.err_name(e), "etype": type(e).__name__}, None
    else:
        # observed right after the call, before any other accessor touches the result
        out = {"ok": core.table_obs(r)}
    finally:
        if old_cb is not None:
            E.seterrcall("empty", old_cb)
    return out, r, inside_ok and dict(E.geterr()) == before


def slim(o):
    return {k: o[k] for k in ("obs", "samp", "rows", "omd", "smd", "type")}


def branches(tobs, axis):
    """which branch of the second loop every operand takes (for the distribution only)"""
    okey = "samp" if axis == "observation" else "obs"
    union = sorted(set(x for t in tobs for x in t[okey]))
    out = []
    for t in tobs:
        if set(t[okey]) != set(union):
            out.append("pad")
        elif t[okey] != union:
            out.append("resort")
        else:
            out.append("asis")
    return out


def own_lookups(t, o, rng, max_cells=30):
    """the live table answers by-ID queries through its OWN lookups exactly as its observation `o` says
    (index/exists/get_value_by_ids/data/metadata by ID, look-alike IDs refused); queries in random order.
    Returns None or a short description of the first wrong answer."""
    q = []
    for ax, key, mdk in (("observation", "obs", "omd"), ("sample", "samp", "smd")):
        ids = o[key]
        for pos, i in enumerate(ids):
            q.append(("index", ax, i, pos))
            q.append(("md", ax, i, None if o[mdk] is None else o[mdk][pos]))
        for u in core.tricky_unknown_ids(ids)[:4]:
            q.append(("unknown", ax, u, None))
        if ids and o["obs"] and o["samp"]:
            pos = rng.randrange(len(ids))
            q.append(("vector", ax, ids[pos], pos))
    cells = [(a, b) for a in range(len(o["obs"])) for b in range(len(o["samp"]))]
    if len(cells) > max_cells:
        cells = rng.sample(cells, max_cells)
    for a, b in cells:
        q.append(("cell", None, (o["obs"][a], o["samp"][b]), o["rows"][a][b]))
    rng.shuffle(q)
    for kind, ax, arg, want in q:
        try:
            if kind == "index":
                got = (int(t.index(arg, ax)), bool(t.exists(arg, ax)))
                want = (want, True)
            elif kind == "md":
                m = t.metadata(arg, axis=ax)
                got = None if m is None else core.canon_md_entry(m)
            elif kind == "unknown":
                got = bool(t.exists(arg, ax))
                want = False
            elif kind == "vector":
                got = [core.frac(x) for x in t.data(arg, axis=ax, dense=True)]
                want = o["rows"][want] if ax == "observation" else [r[want] for r in o["rows"]]
            else:
                got = core.frac(t.get_value_by_ids(arg[0], arg[1]))
        except Exception as e:  # noqa
            got = "raised " + type(e).__name__
        if got != want:
            return "%s(%r, %s) answered %r, observation says %r" % (kind, arg, ax, got, want)
    return None


def mutate_inplace(t, rng, exact):
    """in-place changes that keep the same matrix / ID-array / metadata container objects"""
    done = []
    for op in rng.sample(["update_ids", "relabel", "md_key", "del_md", "transform", "add_md"], rng.randint(1, 3)):
        ax = rng.choice(AXES)
        ids = [str(i) for i in t.ids(axis=ax)]
        try:
            if op == "update_ids" and ids:
                t.update_ids({i: i + "~m" for i in ids}, axis=ax, inplace=True)
            elif op == "relabel" and len(ids) >= 2:
                relabel(t, ax, rng.choice(["swap", "rotate", "reverse"]), True)
            elif op == "md_key":
                md = t.metadata(axis=ax)
                if md:
                    md[rng.randrange(len(md))]["src"] = "MUT"
            elif op == "del_md":
                t.del_metadata(keys=["src"], axis=ax)
            elif op == "transform" and exact and min(t.shape) > 0:
                t.transform(lambda v, i, m: v * 2, axis=ax, inplace=True)
            elif op == "add_md" and ids:
                t.add_metadata({ids[0]: {"added": "yes"}}, axis=ax)
            else:
                continue
            done.append(op + ":" + ax)
        except Exception as e:  # noqa
            done.append(op + ":" + ax + "!" + type(e).__name__)
    return done


def evaluate(ctx, tables, recipe, tags, stage, axis=None, profile=None, poke_rng=None, look_rng=None, batch=None,
             entry=None):
    """one call of the real method on live tables, judged by the Lean predicate; returns (answer, result table,
    operand observations, result observation)"""
    axis = axis or recipe["axis"]
    mode = recipe["mode"] if len(tables) == 2 or recipe["mode"] == "list" else "list"
    entry = entry or recipe["entry"]
    if entry == "module":
        mode = "list"
    look_rng = look_rng or random.Random(recipe.get("post_seed", 0))
    tobs = [slim(core.table_obs(t)) for t in tables]
    # the object handed to the library stays the caller's: kept, and compared afterwards
    kind = recipe.get("container", "list") if batch is None else "list"
    seq = tuple if kind == "tuple" else list
    if entry == "module":
        arg = seq(tables) if batch is None else [tables[0]] + batch
        expected = list(tables)
    elif mode == "single":
        arg, expected = tables[1], None
    else:
        arg = seq(tables[1:]) if batch is None else batch
        expected = list(tables[1:])
    if poke_rng is not None:
        # leave every operand in whatever layout a few earlier reads put it in
        import numpy as np
        with warnings.catch_warnings(), np.errstate(all="ignore"):
            warnings.simplefilter("ignore")
            for t in tables:
                for c in core.poke_layout(t, poke_rng):
                    ctx.count("poke=" + c.split("!")[0])
    res, r, prof_ok = run_real(tables[0], arg, axis, entry, recipe.get("default_axis", False) and stage == "call",
                               recipe.get("axis_pos", False), profile)
    etype = res.pop("etype", None)
    req = {"axis": axis, "tables": tobs, "mode": mode, "entry": entry,
           "result": {"ok": slim(res["ok"])} if "ok" in res else res}
    case = {"recipe": dict(recipe, exact=bool(recipe.get("exact"))), "stage": stage, "req": req}
    key = "obs" if axis == "observation" else "samp"
    br = branches(tobs, axis)
    k = len(tobs)
    tags = list(tags) + ["axis=" + axis, "k=%d" % k, "stage=" + stage] + ["branch=" + b for b in sorted(set(br))]
    if profile:
        tags.append("profile=" + profile)
    if kind == "tuple":
        tags.append("container=tuple")
    if not prof_ok:
        ctx.fail(case, "error-profile-restored", tags)
    if expected is not None and not (len(arg) == len(expected) and all(x is y for x, y in zip(arg, expected))):
        # the caller's list must still hold exactly the tables the caller put there
        ctx.fail(case, "operand-container-unchanged", tags, detail={"len_after": len(arg), "len_before": len(expected)})
    # operands are never changed by the call, refused or not, and stay coherent
    for i, t in enumerate(tables):
        if slim(core.table_obs(t)) != tobs[i]:
            ctx.fail(case, "operand-unchanged-by-call", tags + ["operand=%d" % i])
        elif "error" in res or look_rng.random() < 0.15:
            bad = own_lookups(t, tobs[i], look_rng)
            if bad:
                ctx.fail(case, "operand-own-lookups", tags + ["operand=%d" % i], detail={"what": bad})
    if kind == "tuple" and mode != "single" and etype == "AttributeError":
        # as the tree stands a tuple of tables is turned away (`others[:]` is a tuple, `.insert` does not exist);
        # the property speaks of one table or a list. An accepted tuple is judged like a list below.
        ctx.count("container=tuple-refused")
        return None, None, tobs, None
    if profile == "raise" and res.get("error") == "TableException" and any(0 in t.shape for t in tables):
        # an empty (intermediate or final) table under empty='raise': the profile, not concat, decides (C20)
        ctx.count("profile-raise-on-empty")
        return None, None, tobs, None
    nontrivial = k >= 2 and ("error" in res or any(b != "asis" for b in br) or any(t[key] for t in tobs[1:]))
    ctx.case({"axis": axis, "tables": tobs, "mode": mode, "entry": entry}, nontrivial=nontrivial)
    ans = ctx.driver.ask(req)
    ctx.count("k=%d" % k)
    ctx.count("axis=" + axis)
    ctx.count("outcome=" + ("ok" if "ok" in res else res["error"]))
    ctx.count("stage=" + stage)
    if profile:
        ctx.count("profile=" + profile)
    for b in set(br):
        ctx.count("branch=" + b)
    ctx.count("entry=%s/%s" % (entry, mode))
    if any(t["omd"] is not None or t["smd"] is not None for t in tobs):
        ctx.count("with-metadata")
    okey = "samp" if axis == "observation" else "obs"
    widest = max(max(len(t["obs"]), len(t["samp"])) for t in tobs)
    widest = max(widest, len(set(x for t in tobs for x in t[okey])), sum(len(t[key]) for t in tobs))
    for thr in (64, 128, 256, 512):
        if widest > thr:
            ctx.count("wide>%d" % thr)
    for thr in (8, 32, 64, 128):
        if k > thr:
            ctx.count("operands>%d" % thr)
    if not ans.get("model_holds", True):
        ctx.diverge(case, "theorem model_holds contradicted by the driver", tags, detail={"model": ans["model"]})
    if not ans["holds"]:
        ctx.fail(case, ans["clause"], tags, detail={"model": ans["model"]})
        return ans, r, tobs, None
    if not ans["agree"]:
        ctx.diverge(case, "result differs from the model (other-axis order/metadata, type or error class)", tags,
                    detail={"model": ans["model"]})
    robs = None
    if r is not None:
        robs = slim(res["ok"])
        # the result answers through its own lookups what its dense observation says
        bad = own_lookups(r, robs, look_rng)
        if bad:
            ctx.fail(case, "result-own-lookups", tags, detail={"what": bad})
        # the library's own sum() agrees with the operands' (values chosen so that float sums are exact)
        if recipe.get("exact") and float(r.sum()) != float(sum(float(t.sum()) for t in tables)):
            ctx.fail(case, "grand-total-sum-api", tags)
    return ans, r, tobs, robs


def check_case(ctx, recipe, tags=()):
    axis = recipe["axis"]
    try:
        tables = [build_operand(o, axis) for o in recipe["ops"]]
    except Exception as e:  # an operand that cannot be built is a generator problem, not a case
        ctx.count("skipped-unbuildable:" + type(e).__name__)
        return None
    for i, t in enumerate(tables):
        if tuple(t.shape) != (len(t.ids(axis="observation")), len(t.ids())):
            # Table(np.zeros((0, 1)), [], ['x']) keeps a 0x0 matrix next to one ID (constructor short-cut for
            # empty dense input): not a table of the C01 domain; the same content goes in through scipy instead
            tables[i] = build_operand(dict(recipe["ops"][i], route="csr", hist="none"), axis)
            ctx.count("degenerate-dense-rebuilt-as-csr")
    poke_rng = random.Random(recipe["poke"]) if recipe.get("poke") is not None else None
    prng = random.Random(recipe.get("post_seed", 0))
    ans, r, tobs, robs = evaluate(ctx, tables, recipe, tags, "call", profile=recipe.get("profile"),
                                  poke_rng=poke_rng, look_rng=prng)
    post = recipe.get("post")
    if not post:
        return ans
    ctx.count("post=" + post)
    case = {"recipe": dict(recipe, exact=bool(recipe.get("exact"))), "stage": post}
    ptags = list(tags) + ["axis=" + axis, "k=%d" % len(tables), "post=" + post]
    if post == "mutate_result" and r is not None:
        # in-place changes of the RESULT must not reach any operand
        done = mutate_inplace(r, prng, recipe.get("exact"))
        for i, t in enumerate(tables):
            if slim(core.table_obs(t)) != tobs[i]:
                ctx.fail(case, "alias-operand-changed-with-result", ptags + ["operand=%d" % i], detail={"did": done})
            else:
                bad = own_lookups(t, tobs[i], prng)
                if bad:
                    ctx.fail(case, "alias-operand-lookups-after-result-change", ptags, detail={"did": done, "what": bad})
    elif post == "mutate_operand":
        # in-place changes of an OPERAND must not reach the result or the other operands; the same call again is
        # judged against the operands' CURRENT content (nothing remembered by object identity)
        j = prng.randrange(len(tables))
        done = mutate_inplace(tables[j], prng, recipe.get("exact"))
        if r is not None and robs is not None:
            if slim(core.table_obs(r)) != robs:
                ctx.fail(case, "alias-result-changed-with-operand", ptags + ["operand=%d" % j], detail={"did": done})
            else:
                bad = own_lookups(r, robs, prng)
                if bad:
                    ctx.fail(case, "alias-result-lookups-after-operand-change", ptags, detail={"did": done, "what": bad})
        for i, t in enumerate(tables):
            if i != j and slim(core.table_obs(t)) != tobs[i]:
                ctx.fail(case, "alias-operand-changed-with-operand", ptags + ["operand=%d" % i], detail={"did": done})
        evaluate(ctx, tables, recipe, list(tags) + ["after=" + ",".join(done)], "recall-after-inplace",
                 poke_rng=prng, look_rng=prng)
    elif post == "reuse_list":
        # ONE list object owned by the caller, handed to several calls with different receivers: every call is
        # judged on its own, and the list must still hold exactly what the caller put there
        batch = list(tables[1:])
        evaluate(ctx, tables, recipe, tags, "reuse-1", look_rng=prng, batch=batch, entry="method")
        aids = [str(i) for i in tables[0].ids(axis=axis)]
        other_recv = tables[0].update_ids({i: i + "~d" for i in aids}, axis=axis, inplace=False) if aids \
            else tables[0].copy()
        evaluate(ctx, [other_recv] + batch, recipe, tags, "reuse-2-other-receiver", look_rng=prng, batch=batch,
                 entry="method")
        evaluate(ctx, tables, recipe, tags, "reuse-3-first-receiver-again", look_rng=prng, batch=batch, entry="method")
        evaluate(ctx, [other_recv] + batch, recipe, tags, "reuse-4-module", look_rng=prng, batch=batch, entry="module")
        if len(batch) != len(tables) - 1 or any(x is not y for x, y in zip(batch, tables[1:])):
            ctx.fail(case, "operand-container-unchanged", ptags, detail={"len_after": len(batch)})
    elif post == "altcall":
        # the same live objects again: other axis, then reversed operand order (nothing kept from the first call)
        evaluate(ctx, tables, recipe, tags, "other-axis", axis=other_of(axis), look_rng=prng)
        evaluate(ctx, list(reversed(tables)), recipe, tags, "reversed", poke_rng=prng, look_rng=prng)
        evaluate(ctx, tables, recipe, tags, "again", look_rng=prng)
    return ans


# ----------------------------------------------------------------------------- independence of the hash seed
def plain_outcome(recipe):
    """the bare call on freshly built operands: full result observation (other-axis order included) or error class"""
    axis = recipe["axis"]
    tables = [build_operand(o, axis) for o in recipe["ops"]]
    for i, t in enumerate(tables):
        if tuple(t.shape) != (len(t.ids(axis="observation")), len(t.ids())):
            tables[i] = build_operand(dict(recipe["ops"][i], route="csr", hist="none"), axis)
    arg = list(tables) if recipe["entry"] == "module" else list(tables[1:])
    try:
        return {"ok": slim(core.table_obs(call_concat(tables[0], arg, axis, recipe["entry"])))}
    except Exception as e:  # noqa
        return {"error": core.err_name(e)}


def by_id(out, axis):
    """outcome with the other axis brought to sorted ID order (the property does not fix that order)"""
    if "ok" not in out:
        return out
    t = out["ok"]
    if axis == "sample":
        perm = sorted(range(len(t["obs"])), key=lambda i: t["obs"][i])
        return {"ok": dict(t, obs=[t["obs"][i] for i in perm], rows=[t["rows"][i] for i in perm],
                           omd=None if t["omd"] is None else [t["omd"][i] for i in perm])}
    perm = sorted(range(len(t["samp"])), key=lambda i: t["samp"][i])
    return {"ok": dict(t, samp=[t["samp"][i] for i in perm], rows=[[r[i] for i in perm] for r in t["rows"]],
                       smd=None if t["smd"] is None else [t["smd"][i] for i in perm])}


def child_main():
    import sys
    recipes = json.loads(sys.stdin.read())
    sys.stdout.write(json.dumps([plain_outcome(r) for r in recipes], ensure_ascii=True))


def hashseed_stream(ctx, recipes, seeds):
    """`concat` walks Python sets of IDs (str hashes differ from process to process unless PYTHONHASHSEED is pinned):
    the same operand sets in child processes with other hash seeds must give exactly the parent's outcomes"""
    import os
    import subprocess
    import sys
    here = [plain_outcome(r) for r in recipes]
    for hs in seeds:
        env = dict(os.environ, PYTHONHASHSEED=str(hs), BIOM_REPO=core.REPO)
        p = subprocess.run([sys.executable, "-c",
                            "import sys; sys.path.insert(0, %r); from harness import c10; c10.child_main()" % core.ROOT],
                           input=json.dumps(recipes), capture_output=True, text=True, env=env, cwd=core.ROOT)
        if p.returncode != 0:
            raise RuntimeError("hash-seed child failed: " + p.stderr[-500:])
        there = json.loads(p.stdout)
        for rec, a, b in zip(recipes, here, there):
            ctx.count("hashseed-compared")
            case = {"recipe": rec, "stage": "hashseed=%s" % hs, "child": b, "parent": a}
            if by_id(a, rec["axis"]) != by_id(b, rec["axis"]):
                ctx.fail(case, "outcome-independent-of-hash-seed", ["hashseed"])
            elif a != b:
                ctx.diverge(case, "other-axis order depends on the hash seed (the model says: sorted)", ["hashseed"])


# ----------------------------------------------------------------------------- fixed corpus
def fixed_corpus():
    out = []
    # the docstring example (observation ids overlap between a and c, samples disjoint)
    a = {"obs": ["O1", "O2"], "samp": ["S1", "S2", "S3"], "rows": [[0.0, 1.0, 2.0], [3.0, 4.0, 5.0]],
         "omd": [{"taxonomy": "foo"}, {"taxonomy": "bar"}], "smd": None, "type": None}
    b = {"obs": ["O3", "O4"], "samp": ["S4", "S5", "S6"], "rows": [[6.0, 7.0, 8.0], [9.0, 10.0, 11.0]],
         "omd": [{"taxonomy": "baz"}, {"taxonomy": "foobar"}], "smd": None, "type": None}
    c = {"obs": ["O1", "O5"], "samp": ["S7", "S8", "S9"], "rows": [[12.0, 13.0, 14.0], [15.0, 16.0, 17.0]],
         "omd": [{"taxonomy": "foo"}, {"taxonomy": "biz"}], "smd": None, "type": None}

    def ops(specs, routes=None, hists=None):
        return [{"spec": copy.deepcopy(s), "route": (routes or ["dense"] * len(specs))[i],
                 "hist": (hists or ["none"] * len(specs))[i]} for i, s in enumerate(specs)]

    for entry in ("method", "module"):
        out.append({"axis": "sample", "ops": ops([a, b, c]), "mode": "list", "entry": entry, "exact": True})
    # observation axis of the same three is refused (O1 in a and c)
    out.append({"axis": "observation", "ops": ops([a, b, c]), "mode": "list", "entry": "method", "exact": True})
    # same other-axis set, different order, nothing missing: only the re-sort branch
    p = {"obs": ["o2", "o1", "o3"], "samp": ["s1", "s2"], "rows": [[1.0, 2.0], [3.0, 4.0], [5.0, 6.0]],
         "omd": [{"k": "p2"}, {"k": "p1"}, {"k": "p3"}], "smd": [{"d": 1}, {"d": 2}], "type": "OTU table"}
    q = {"obs": ["o3", "o2", "o1"], "samp": ["s3"], "rows": [[7.0], [8.0], [9.0]],
         "omd": None, "smd": [{"d": 3}], "type": None}
    for mode in ("single", "list"):
        out.append({"axis": "sample", "ops": ops([p, q], ["csr", "csc"]), "mode": mode, "entry": "method", "exact": True})
    out.append({"axis": "observation", "ops": ops([transpose_spec(p), transpose_spec(q)]), "mode": "single",
                "entry": "method", "exact": True})
    # padding for the FIRST operand only, and for a middle operand only
    r1 = {"obs": ["b"], "samp": ["x1"], "rows": [[1.0]], "omd": None, "smd": None, "type": None}
    r2 = {"obs": ["c", "a", "b"], "samp": ["x2", "x3"], "rows": [[2.0, 3.0], [4.0, 5.0], [6.0, 7.0]],
          "omd": [{"m": "c"}, {"m": "a"}, {"m": "b"}], "smd": None, "type": None}
    r3 = {"obs": ["a", "b", "c"], "samp": ["x4"], "rows": [[8.0], [9.0], [10.0]], "omd": None,
          "smd": [{"z": 1}], "type": None}
    out.append({"axis": "sample", "ops": ops([r1, r2, r3]), "mode": "list", "entry": "method", "exact": True})
    out.append({"axis": "sample", "ops": ops([r3, r1, r2]), "mode": "list", "entry": "module", "exact": True})
    out.append({"axis": "sample", "ops": ops([r2, r3, r1, ]), "mode": "list", "entry": "method", "exact": True})
    # overlap only between the 2nd and 3rd operand (not with the receiver)
    r4 = {"obs": ["a"], "samp": ["x2"], "rows": [[1.0]], "omd": None, "smd": None, "type": None}
    out.append({"axis": "sample", "ops": ops([r1, r2, r4]), "mode": "list", "entry": "method", "exact": True})
    out.append({"axis": "sample", "ops": ops([r1, r4, r2]), "mode": "list", "entry": "module", "exact": True})
    # single operand / empty list
    out.append({"axis": "sample", "ops": ops([r2]), "mode": "list", "entry": "method", "exact": True})
    out.append({"axis": "observation", "ops": ops([r2]), "mode": "list", "entry": "module", "exact": True})
    # empty operands
    e0 = {"obs": ["a", "d"], "samp": [], "rows": [[], []], "omd": None, "smd": None, "type": None}
    e1 = {"obs": [], "samp": ["x9"], "rows": [], "omd": None, "smd": None, "type": None}
    e2 = {"obs": [], "samp": [], "rows": [], "omd": None, "smd": None, "type": None}
    for ax in AXES:
        out.append({"axis": ax, "ops": ops([r2, e0]), "mode": "single", "entry": "method", "exact": True})
        out.append({"axis": ax, "ops": ops([e1, r3]), "mode": "list", "entry": "method", "exact": True})
        out.append({"axis": ax, "ops": ops([e2, r2, e2]), "mode": "list", "entry": "module", "exact": True})
    return out


def edge_stream(ctx):
    """outside the property's domain: only the error class is compared with the model"""
    import biom
    t = core.build({"obs": ["a"], "samp": ["x"], "rows": [[1.0]], "omd": None, "smd": None, "type": None})
    o = slim(core.table_obs(t))
    for axis in ("foo", "Sample", "", "both"):
        try:
            t.concat([t.copy()], axis=axis)
            res = {"ok": o}
        except Exception as e:  # noqa
            res = {"error": core.err_name(e)}
        req = {"axis": axis, "tables": [o, o], "mode": "list", "entry": "method", "result": res}
        ctx.case(req, nontrivial=False)
        ans = ctx.driver.ask(req)
        ctx.count("edge=bad-axis")
        if not ans["holds"]:
            ctx.diverge({"req": req}, "edge: unknown axis not refused as the model says", ["edge"])
    try:
        biom.concat([])
        res = {"ok": o}
    except Exception as e:  # noqa
        res = {"error": core.err_name(e)}
    req = {"axis": "sample", "tables": [], "mode": "list", "entry": "module", "result": res}
    ctx.case(req, nontrivial=False)
    ans = ctx.driver.ask(req)
    ctx.count("edge=empty-list")
    if not ans["holds"]:
        ctx.diverge({"req": req}, "edge: biom.concat([]) differs from the model", ["edge"])


# ----------------------------------------------------------------------------- entry points
def run(ctx):
    ctx.rule = ("operand sets: k in 1..4, axis in {sample, observation}, other axis identical/permuted/partially "
                "missing/disjoint/mixed, per-operand metadata on either axis or none, 9 layout routes, operand "
                "histories (copy, filter, sort_order on either axis, transpose, prior concat, update_ids, "
                "del_metadata), single table vs list, Table.concat vs biom.concat, 12% with an ID shared by two "
                "operands; 25% with look-alike / over-long / newline-terminated / multi-byte IDs on both axes; a few "
                "sets with >= 64 IDs on one axis. Around the call: operands left in a random layout by earlier reads "
                "(60%), error profile empty=warn/call/raise (30%), positional axis argument (20%); afterwards (3 in 8) "
                "in-place changes of the result or of an operand with every other live table required unchanged and "
                "the call repeated on the current content, or the same objects concatenated along the other axis / "
                "in reversed order / again. Every result and every refused call's operands must answer by-ID queries "
                "through their own lookups. Distinct = distinct (axis, operand observations, mode, entry); "
                "non-trivial = k >= 2 and (refused, or some operand padded/re-sorted, or a later operand contributes "
                "vectors).")
    ctx.assumptions = ["values cross as exact rationals; concat computes nothing, so totals are compared exactly over "
                       "Rat; the library's float sum() is compared only for integer/dyadic value classes",
                       "the iteration order of Python's set of missing IDs is not observed (erased by sort_order; "
                       "Lean: padSort_missing_order)"]
    rng = ctx.rng
    quick = ctx.quick()
    for rec in fixed_corpus():
        check_case(ctx, rec, tags=["fixed-corpus"])
    # the fixed corpus once more with everything that can surround a call
    for n, rec in enumerate(fixed_corpus()):
        check_case(ctx, dict(rec, poke=n, profile=[None, "warn", "call", "raise"][n % 4], axis_pos=n % 2 == 0,
                             post=["mutate_result", "mutate_operand", "altcall"][n % 3], post_seed=n),
                   tags=["fixed-corpus", "hardened"])
    edge_stream(ctx)
    # size thresholds: a few large operand sets, early and on both axes
    for rep in range(1 if quick else 8):
        plan = [("sample", "other", rng.randint(257, 320), False, "method"),
                ("observation", "other", rng.randint(257, 320), True, "module"),
                ("observation", "other", rng.randint(129, 256), False, "method"),
                ("sample", "other", rng.randint(129, 256), True, "module"),
                ("sample", "axis", rng.choice([64, 130, 260]), rep % 2 == 0, None),
                ("observation", "axis", rng.choice([70, 129, 300]), rep % 2 == 1, None)]
        if rep % 2:
            plan = [(other_of(a), w, n, not p, e) for a, w, n, p, e in plan]
        plan.append((rng.choice(AXES), "other", rng.randint(513, 600), rep % 2 == 0, rng.choice(["method", "module"])))
        for axis, wide_on, n, padded, entry in plan:
            check_case(ctx, gen_wide(rng, axis, wide_on, n, padded, entry), tags=["wide"])
    # other hash seeds in child processes (set iteration order of the missing IDs, of fresh other-axis IDs)
    hs_recipes = [json.loads(json.dumps(r)) for r in fixed_corpus()]
    for _ in range(25 if quick else 150):
        hs_recipes.append(gen_case(rng, quick, {"k": rng.choice([3, 4]), "mode": rng.choice(["partial", "disjoint", "mixed"]),
                                                "overlap": rng.random() < 0.1}))
    hashseed_stream(ctx, hs_recipes, [rng.randrange(1, 1 << 30)] if quick else [rng.randrange(1, 1 << 30) for _ in range(3)])
    # operand-count thresholds: k just below / at / just above every power of two up to 128 (thorough: 512), through
    # both entry points; a quarter of the sets repeat an axis ID (last table vs first, or a random pair) and must raise
    tops = [8, 16, 32, 64, 128] + ([] if quick else [256, 512])
    for t in tops:
        for k in (t - 1, t, t + 1):
            for entry in ("module", "method"):
                ov = rng.choice([None, None, None, "last-first", "random"])
                check_case(ctx, gen_many(rng, rng.choice(AXES), k, entry, ov), tags=["many"])
    for _ in range(4 if quick else 40):
        k = rng.choice([rng.randint(5, 40), rng.randint(41, 100), 32 * rng.randint(1, 4) + 1, rng.randint(100, 140)])
        check_case(ctx, gen_many(rng, rng.choice(AXES), k, rng.choice(["module", "method"]),
                                 rng.choice([None, None, "last-first"])), tags=["many"])
    # systematic sweep: every (axis, k, mode, entry) combination at least a few times
    reps = 2 if quick else 12
    for axis in AXES:
        for k in (1, 2, 3, 4):
            for mode in MODES:
                for entry in ("method", "module"):
                    for _ in range(reps):
                        check_case(ctx, gen_case(rng, quick, {"axis": axis, "k": k, "mode": mode, "entry": entry,
                                                               "overlap": False}))
                for _ in range(reps):
                    if k >= 2:
                        check_case(ctx, gen_case(rng, quick, {"axis": axis, "k": k, "mode": mode, "overlap": True}))
    budget = 24 if quick else 540
    n = 0
    limit = 3000 if quick else 120000
    while n < limit and ctx.time_left(budget) > 0:
        check_case(ctx, gen_case(rng, quick))
        n += 1


def replay(ctx, rec):
    case = rec["case"]
    if "recipe" in case:
        recipe = case["recipe"]
        ans = check_case(ctx, recipe, tags=["replay"])
        ctx.notes.append("replayed recipe: %s" % json.dumps(ans, ensure_ascii=False)[:600])
    else:
        ans = ctx.driver.ask(case["req"])
        ctx.notes.append("replayed stored request only: %s" % json.dumps(ans, ensure_ascii=False)[:600])
        if not ans["holds"]:
            ctx.fail(case, ans["clause"], ["replay"])
