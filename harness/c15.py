"""C15 - the validator accepts what the library writes and rejects structural corruption.

Fault enumeration.  Base files are written by the real library (``to_json`` text, ``to_hdf5`` files
under /tmp/c15/, removed at the end) from ``core.gen_spec`` tables with a vocabulary type.  Every
single mutation of the grammar (and a sample / all of the double mutations) is applied to the
parsed JSON document / to the HDF5 file through h5py, the REAL validator runs in-process on the
mutated file (``biom.cli.table_validator._validate_table``; the ``validate-table`` sub-command
object for the exit status), accepted JSON documents are loaded with ``biom.load_table``.  The Lean
driver replays the same mutation on the base (``apply``/``applyH`` must give the observed file),
runs the model validator (verdict valid / invalid / crash and number of report lines must agree)
and evaluates ``holds`` on the real verdict and the real loaded table.
"""
import copy
import json
import os
import shutil
from datetime import datetime

from . import core

TMP = "/tmp/c15"
PID = os.getpid()
F_CASE = "case_%d.biom" % PID
F_CASE_H5 = "case_h5_%d.biom" % PID
F_BASE_H5 = "base_h5_%d.biom" % PID
VOCAB = [t for t in core.TYPES if t is not None]
KEYS = ["id", "format", "format_url", "matrix_type", "generated_by", "date", "type",
        "matrix_element_type", "shape", "data", "rows", "columns"]
DATE_FORMATS = ["%Y-%m-%d", "%Y-%m-%dT%H:%M", "%Y-%m-%dT%H:%M:%S", "%Y-%m-%dT%H:%M:%S.%f",
                "%Y-%m-%dT%H:%M:%S%z", "%Y-%m-%dT%H:%M:%S.%f%z"]
# accepted spellings of the format_version argument
JSON_FVS = (None, "1.0.0", "None")
H5_FVS = (None, "2.1", "2.1.0", "2.0", "2.0.0", "None")
# spellings `TableValidator.run` refuses with ValueError before looking at the file
JSON_BAD_FVS = ("2.1", "1.0", "x")
H5_BAD_FVS = ("3.0", "1.0.0", "2", "x")
F_SHARED = "shared_%d.biom" % PID
# HDF5 mutation classes the validator is known not to look at (known findings F-C15-1..6)
H5_PASS_CLASSES = ("index-out-of-range", "index-negative", "data-elem-type", "indices-elem-type",
                   "blank-id", "dup-id")


# ----------------------------------------------------------------------------- oracles / encoders
def date_ok(v):
    """the external parameter of the model: does datetime.strptime accept the text?"""
    if isinstance(v, bytes):
        v = v.decode("utf8")
    if not isinstance(v, str):
        return False
    for fmt in DATE_FORMATS:
        try:
            datetime.strptime(v, fmt)
            return True
        except Exception:
            pass
    return False


def enc(v):
    """python json value -> tagged JSON for the driver (ints and floats kept apart, dict order kept)"""
    if v is None or isinstance(v, (bool, str)):
        return v
    if isinstance(v, int):
        return v
    if isinstance(v, float):
        return {"f": core.frac(v)}
    if isinstance(v, list):
        return [enc(x) for x in v]
    if isinstance(v, dict):
        return {"o": [[k, enc(x)] for k, x in v.items()]}
    raise TypeError(type(v))


def enc_mut(m):
    out = dict(m)
    if "v" in out and out["m"] not in ("setShape",):
        out["v"] = enc(out["v"])
    return out


# ----------------------------------------------------------------------------- JSON mutation grammar
def j_apply(m, d):
    """python twin of Lean `apply` on a parsed document (dict)"""
    d = copy.deepcopy(d)
    k = m["m"]

    def recs(ax):
        r = d.get(ax)
        return r if isinstance(r, list) else None

    def set_top(key, v):
        d[key] = v

    if k == "deleteKey":
        d.pop(m["k"], None)
    elif k == "renameKey":
        if m["k"] in d:
            v = d.pop(m["k"])
            d[m["k2"]] = v
    elif k == "setShape":
        set_top("shape", [m["r"], m["c"]])
    elif k == "shapeRaw":
        set_top("shape", copy.deepcopy(m["v"]))
    elif k == "appendCoord":
        if isinstance(d.get("data"), list):
            d["data"].append(copy.deepcopy(m["v"]))
    elif k == "setData":
        set_top("data", copy.deepcopy(m["v"]))
    elif k == "dupId":
        r = recs(m["ax"])
        if r is not None and m["i"] < len(r) and isinstance(r[m["i"]], dict) and "id" in r[m["i"]]:
            v = r[m["i"]]["id"]
            if m["j"] < len(r) and isinstance(r[m["j"]], dict):
                r[m["j"]]["id"] = copy.deepcopy(v)
    elif k in ("blankId", "setId", "setMetadata"):
        r = recs(m["ax"])
        if r is not None and m["i"] < len(r) and isinstance(r[m["i"]], dict):
            if k == "blankId":
                r[m["i"]]["id"] = ""
            elif k == "setId":
                r[m["i"]]["id"] = copy.deepcopy(m["v"])
            else:
                r[m["i"]]["metadata"] = copy.deepcopy(m["v"])
    elif k == "deleteField":
        r = recs(m["ax"])
        if r is not None and m["i"] < len(r) and isinstance(r[m["i"]], dict):
            r[m["i"]].pop(m["k"], None)
    elif k == "dropRecord":
        r = recs(m["ax"])
        if r is not None and m["i"] < len(r):
            del r[m["i"]]
    elif k == "appendRecord":
        r = recs(m["ax"])
        if r is not None:
            r.append(copy.deepcopy(m["v"]))
    elif k == "swapElemType":
        set_top("matrix_element_type", copy.deepcopy(m["v"]))
    elif k == "swapMatrixType":
        set_top("matrix_type", copy.deepcopy(m["v"]))
    elif k == "corruptDate":
        set_top("date", copy.deepcopy(m["v"]))
    elif k == "corruptFormat":
        set_top("format", copy.deepcopy(m["v"]))
    elif k == "corruptUrl":
        set_top("format_url", copy.deepcopy(m["v"]))
    elif k == "setType":
        set_top("type", copy.deepcopy(m["v"]))
    elif k == "setGeneratedBy":
        set_top("generated_by", copy.deepcopy(m["v"]))
    else:
        raise ValueError(k)
    return d


def json_mutations(doc):
    """every single mutation of the grammar for this base document"""
    n, m = doc["shape"]
    out = []
    for k in KEYS:
        out.append({"m": "deleteKey", "k": k})
        out.append({"m": "renameKey", "k": k, "k2": k + "_x"})
    out.append({"m": "renameKey", "k": "rows", "k2": "columns"})
    out.append({"m": "renameKey", "k": "shape", "k2": "data"})
    for r, c in [(n + 1, m), (n, m + 1), (n - 1, m), (n, m - 1), (m, n), (0, 0), (-1, m), (n, m), (n + 1, m + 1)]:
        out.append({"m": "setShape", "r": r, "c": c})
    for v in [[n], [n, m, 1], [float(n), m], [n, float(m)], [str(n), m], None, "ab", {"a": n, "b": m}, [True, m], n,
              [n, None]]:
        out.append({"m": "shapeRaw", "v": v})
    for v in [[n, 0, 1.0], [0, m, 1.0], [-1, 0, 1.0], [0, -1, 1.0], [n - 1, m - 1, 1.0], [0, 0, 2.0], [0, 0, "x"],
              [0, 0, 1], [0, 0, None], [0, 0, True], [0.0, 0, 1.0], [0, 0.0, 1.0], ["0", 0, 1.0], [True, 0, 1.0],
              [0, 0], [0, 0, 1.0, 2.0], 5, "abc", None, {"a": 0, "b": 0, "c": 1.0}, [10 ** 30, 0, 1.0],
              [0, 0, [1.0]], [n + 7, m + 7, 1.0], []]:
        out.append({"m": "appendCoord", "v": v})
    for v in [None, "", {}, [], 5, "xyz", [[0, 0, 1.0], [0, 0, 2.0]]]:
        out.append({"m": "setData", "v": v})
    for ax, cnt in (("rows", n), ("columns", m)):
        if cnt >= 2:
            out.append({"m": "dupId", "ax": ax, "i": 0, "j": 1})
            out.append({"m": "dupId", "ax": ax, "i": cnt - 1, "j": 0})
        for i in sorted({0, cnt - 1}):
            out.append({"m": "blankId", "ax": ax, "i": i})
        for v in [None, 0, [], 7, False]:
            out.append({"m": "setId", "ax": ax, "i": cnt - 1, "v": v})
        for v in [5, "x", [1], True, {}, {"k": "v"}, None, 0.5]:
            out.append({"m": "setMetadata", "ax": ax, "i": 0, "v": v})
        out.append({"m": "deleteField", "ax": ax, "i": 0, "k": "id"})
        out.append({"m": "deleteField", "ax": ax, "i": cnt - 1, "k": "metadata"})
        out.append({"m": "dropRecord", "ax": ax, "i": cnt - 1})
        for v in [{"id": "zz_new", "metadata": None}, "id", "xx", None, {"id": "zz_new"}, 5, ["id", "metadata"]]:
            out.append({"m": "appendRecord", "ax": ax, "v": v})
    for v in ["int", "str", "unicode", "complex", None, 5, ["float"]]:
        out.append({"m": "swapElemType", "v": v})
    for v in ["dense", "Sparse", "bogus", None, ["sparse"], 5]:
        out.append({"m": "swapMatrixType", "v": v})
    for v in ["not a date", "2011-12-19", 5, None, "2011-13-45T00:00:00"]:
        out.append({"m": "corruptDate", "v": v})
    for v in ["1.0.0", "Biological Observation Matrix 2.0.0", 1, None]:
        out.append({"m": "corruptFormat", "v": v})
    for v in ["http://example.org", None, 5]:
        out.append({"m": "corruptUrl", "v": v})
    for v in [None, "", "bogus table", "otu table", 5, "OTU TABLE", ["OTU table"]]:
        out.append({"m": "setType", "v": v})
    for v in ["", None, 0, "x", 5]:
        out.append({"m": "setGeneratedBy", "v": v})
    return out


# ----------------------------------------------------------------------------- running the real code
def real_validate(path, fv=None):
    """(verdict, number of report lines | None) from the real validator, in-process; SystemExit and
    every other exception count as `crash`"""
    from biom.cli.table_validator import _validate_table
    saved = os.dup(1)
    try:
        valid, report = _validate_table(path, fv)
    except KeyboardInterrupt:
        raise
    except BaseException:
        return "crash", None
    finally:
        os.dup2(saved, 1)
        os.close(saved)
    return ("valid" if valid else "invalid"), len(report)


def real_exit(path, fv=None):
    """exit status and last line of the `validate-table` sub-command (not the click group)"""
    from click.testing import CliRunner
    from biom.cli.table_validator import validate_table
    saved = os.dup(1)
    try:
        res = CliRunner().invoke(validate_table, ["-i", path] + (["-f", fv] if fv is not None else []))
    finally:
        os.dup2(saved, 1)
        os.close(saved)
    lines = [l for l in (res.output or "").split("\n") if l.strip()]
    return res.exit_code, (lines[-1] if lines else "")


def real_load(path):
    from biom import load_table
    try:
        t = load_table(path)
        import numpy as np
        dense = t.matrix_data.toarray() if t.matrix_data.shape[0] * t.matrix_data.shape[1] > 0 else \
            np.zeros(t.matrix_data.shape)
        if tuple(dense.shape) != (len(t.ids(axis="observation")), len(t.ids())):
            return {"error": "shape"}
        return {"ok": {"obs": [str(i) for i in t.ids(axis="observation")], "samp": [str(i) for i in t.ids()],
                       "grid": [[core.frac(x) for x in dense[i]] for i in range(dense.shape[0])]}}
    except Exception as e:
        return {"error": type(e).__name__}


def check_exit(ctx, case, path, model_exit, verdict, tags, fv=None):
    code, last = real_exit(path, fv)
    ctx.count("cli-exit=%d" % code)
    expect_last = "The input file is a valid BIOM-formatted file." if verdict == "valid" else \
        ("The input file is not a valid BIOM-formatted file." if verdict == "invalid" else None)
    if (code == 0) != (verdict == "valid"):
        # the command's exit status contradicts the validator's own result
        ctx.fail(case, "exit_status", tags + ("cli",), detail={"exit": code, "verdict": verdict})
    elif code != model_exit:
        ctx.diverge(case, "exit status differs from the model", tags + ("cli",),
                    detail={"exit": code, "model_exit": model_exit, "verdict": verdict})
    elif expect_last is not None and last != expect_last:
        ctx.diverge(case, "last report line of validate-table", tags + ("cli",), detail={"last": last})


# ----------------------------------------------------------------------------- JSON cases
def json_case(ctx, case, base_doc, muts, doc=None, text=None, is_base=False, tags=(), with_exit=False,
              written_from=None, fvs=(None,), path=None):
    """one JSON case: (base_doc, muts) -> mutated doc written to a file, validated under each spelling of
    the format_version argument in `fvs`, loaded when accepted, judged"""
    if doc is None:
        doc = base_doc
        for m in muts:
            doc = j_apply(m, doc)
    if path is None:
        path = os.path.join(TMP, F_CASE)
    with open(path, "w") as f:
        f.write(text if text is not None else json.dumps(doc))
    load = None
    out = None
    base_tags = tuple(tags) + ("json",) + tuple(sorted({m["m"] for m in muts}))
    for k, fv in enumerate(fvs):
        verdict, nlines = real_validate(path, fv)
        if verdict == "valid" and load is None:
            load = real_load(path)
        req = {"op": "json", "doc": enc(doc),
               "date_ok": date_ok(doc.get("date")) if isinstance(doc, dict) else False,
               "verdict": verdict, "nlines": nlines if isinstance(doc, dict) else None, "is_base": is_base,
               "load": load if verdict == "valid" else None}
        if muts:
            req["base"] = enc(base_doc)
            req["muts"] = [enc_mut(m) for m in muts]
        if written_from is not None:
            # the table the file was written from: Lean checks that the file IS `docOf` of that table
            req["written_from"] = {"obs": written_from["obs"], "samp": written_from["samp"],
                                   "rows": core.grid_frac(written_from["rows"])}
        r = ctx.driver.ask(req)
        if k > 0:
            ctx.evaluations += 1
        cls = "+".join(m["m"] for m in muts) if muts else ("written" if is_base else "corpus-doc")
        if k == 0:
            if len(muts) <= 1:
                ctx.count("json:%s->%s" % (cls, verdict))
            else:
                ctx.count("json:double->%s" % verdict)
            if verdict == "valid":
                ctx.count("json:accepted-loaded=%s" % ("ok" if load and "ok" in load else "FAIL"))
        ctx.count("json:format_version=%s" % fv)
        tg = base_tags + ("format_version=%s" % fv,)
        fcase = dict(case, fv=fv)
        if not r["holds"]:
            extra = ()
            if r["clause"] == "valid_loads":
                extra = ("load-error:%s" % (load or {}).get("error", "mismatch"),)
            ctx.fail(fcase, r["clause"], tg + extra, detail={"model": r["model"], "verdict": verdict, "load": load})
        elif not r["agree"]:
            ctx.diverge(fcase, "model differs: %s" % ",".join(r["differs"]), tg,
                        detail={"model": r["model"], "verdict": verdict, "nlines": nlines, "load": load})
        if with_exit:
            check_exit(ctx, fcase, path, r["model"]["exit"], verdict, tg, fv)
        if out is None:
            out = (r, verdict)
    return out


def base_key(spec):
    """short content key of a base table, so that case keys are distinct across worker shards"""
    import hashlib
    return hashlib.sha1(json.dumps(core.spec_obs(spec), sort_keys=True, ensure_ascii=False).encode()).hexdigest()[:12]


def written_json(spec, route="dense"):
    t = core.build(spec, route)
    return t.to_json("c15-harness")


# ----------------------------------------------------------------------------- HDF5 observation
def enc_attr(v):
    import numpy as np
    if isinstance(v, bytes):
        try:
            v = v.decode("utf8")
        except Exception:
            return {"t": "other"}
    if isinstance(v, str):
        return {"t": "str", "v": v}
    if isinstance(v, (bool, np.bool_)):
        return {"t": "other"}
    if isinstance(v, (int, np.integer)):
        return {"t": "int", "v": int(v)}
    if isinstance(v, (float, np.floating)):
        return {"t": "real", "v": core.frac(v)}
    if isinstance(v, np.ndarray) and v.ndim == 1:
        if np.issubdtype(v.dtype, np.integer):
            return {"t": "ints", "v": [int(x) for x in v]}
        if np.issubdtype(v.dtype, np.floating):
            return {"t": "reals", "v": [core.frac(x) for x in v]}
    return {"t": "other"}


def enc_node(o):
    import h5py
    import numpy as np
    if isinstance(o, h5py.Group):
        return {"kind": "group"}
    shape = o.shape
    ln = int(shape[0]) if shape is not None and len(shape) >= 1 else None
    flat = shape is not None and len(shape) <= 1
    data = {"t": "other", "n": ln or 0}
    if flat:
        arr = np.atleast_1d(o[()])
        if np.issubdtype(o.dtype, np.integer):
            data = {"t": "ints", "v": [int(x) for x in arr]}
        elif np.issubdtype(o.dtype, np.floating):
            data = {"t": "reals", "n": int(arr.shape[0])}
        elif o.dtype.kind in ("O", "S", "U"):
            try:
                data = {"t": "strs", "v": [x.decode("utf8") if isinstance(x, bytes) else str(x) for x in arr]}
            except Exception:
                data = {"t": "other", "n": int(arr.shape[0])}
    return {"kind": "ds", "len": ln, "data": data}


def observe_h5(path):
    import h5py
    with h5py.File(path, "r") as f:
        attrs = [[k, enc_attr(v)] for k, v in f.attrs.items()]
        nodes = []
        f.visititems(lambda name, o: nodes.append([name.split("/"), enc_node(o)]))
        date = f.attrs.get("creation-date", None)
    return {"attrs": attrs, "nodes": nodes}, date_ok(date)


def aval_py(v):
    import numpy as np
    t = v["t"]
    if t == "str":
        return v["v"]
    if t == "int":
        return np.int64(v["v"])
    if t == "real":
        return np.float64(core.unfrac(v["v"]))
    if t == "ints":
        return np.array(v["v"], dtype=np.int64)
    if t == "reals":
        return np.array([float(core.unfrac(x)) for x in v["v"]], dtype=np.float64)
    raise ValueError(t)


def h_apply(m, path):
    """h5py twin of Lean `applyH`, in place on the file"""
    import h5py
    import numpy as np
    k = m["m"]
    sdt = h5py.string_dtype()
    with h5py.File(path, "r+") as f:
        if k == "deleteAttr":
            if m["k"] in f.attrs:
                del f.attrs[m["k"]]
        elif k == "renameAttr":
            if m["k"] in f.attrs:
                v = f.attrs[m["k"]]
                del f.attrs[m["k"]]
                if m["k2"] in f.attrs:
                    del f.attrs[m["k2"]]
                f.attrs[m["k2"]] = v
        elif k == "setAttr":
            if m["k"] in f.attrs:
                del f.attrs[m["k"]]
            f.attrs[m["k"]] = aval_py(m["v"])
        elif k == "deleteNode":
            p = "/".join(m["p"])
            if p in f:
                del f[p]
        elif k == "renameNode":
            p = "/".join(m["p"])
            if p in f:
                f.move(p, "/".join(m["p"][:-1] + [m["last"]]))
        elif k == "setIndex":
            ds = f["%s/matrix/indices" % m["ax"]] if "%s/matrix/indices" % m["ax"] in f else None
            if isinstance(ds, h5py.Dataset) and ds.shape and np.issubdtype(ds.dtype, np.integer) and \
                    m["pos"] < ds.shape[0]:
                ds[m["pos"]] = m["v"]
        elif k == "retypeData":
            p = "%s/matrix/data" % m["ax"]
            ds = f[p] if p in f else None
            if isinstance(ds, h5py.Dataset) and ds.shape is not None and len(ds.shape) == 1 and \
                    np.issubdtype(ds.dtype, np.floating):
                n = ds.shape[0]
                del f[p]
                f.create_dataset(p, shape=(n,), dtype=sdt, data=["x"] * n)
        elif k == "retypeIndices":
            p = "%s/matrix/indices" % m["ax"]
            ds = f[p] if p in f else None
            if isinstance(ds, h5py.Dataset) and ds.shape is not None and len(ds.shape) == 1 and \
                    np.issubdtype(ds.dtype, np.integer):
                vals = ds[()].astype(np.float64)
                del f[p]
                f.create_dataset(p, data=vals)
        elif k in ("dupId", "blankId", "dropLastId"):
            p = "%s/ids" % m["ax"]
            ds = f[p] if p in f else None
            if isinstance(ds, h5py.Dataset) and ds.shape is not None and len(ds.shape) == 1 and \
                    ds.dtype.kind in ("O", "S", "U"):
                ids = [x.decode("utf8") if isinstance(x, bytes) else str(x) for x in ds[()]]
                if k == "dupId":
                    if m["i"] < len(ids) and m["j"] < len(ids):
                        ids[m["j"]] = ids[m["i"]]
                elif k == "blankId":
                    if m["i"] < len(ids):
                        ids[m["i"]] = ""
                else:
                    ids = ids[:-1]
                del f[p]
                f.create_dataset(p, shape=(len(ids),), dtype=sdt, data=ids if ids else None)
        elif k == "groupToDataset":
            p = "/".join(m["p"])
            if p in f:
                del f[p]
                f.create_dataset(p, data=np.int64(0))
        elif k == "resizeDataset":
            p = "/".join(m["p"])
            if p in f and isinstance(f[p], h5py.Dataset):
                del f[p]
                f.create_dataset(p, data=np.zeros(m["k"], dtype=np.float64))
        else:
            raise ValueError(k)


def h5_class(m, n, mm):
    """mutation class used in tags and in the distribution"""
    k = m["m"]
    if k == "setIndex":
        return "index-negative" if m["v"] < 0 else "index-out-of-range"
    if k == "retypeData":
        return "data-elem-type"
    if k == "retypeIndices":
        return "indices-elem-type"
    if k == "blankId":
        return "blank-id"
    if k == "dupId":
        return "dup-id"
    if k in ("deleteNode", "renameNode") and m["p"] in ([a, b] for a in ("observation", "sample")
                                                          for b in ("metadata", "group-metadata")):
        return "missing-md-group"
    if k == "resizeDataset":
        return "md-length"
    return k


def h5_mutations(tree, n, m):
    out = []
    attrs = ["format-url", "format-version", "type", "shape", "nnz", "generated-by", "id", "creation-date"]
    for k in attrs:
        out.append({"m": "deleteAttr", "k": k})
        out.append({"m": "renameAttr", "k": k, "k2": k + "-x"})

    def sa(k, t, v=None):
        out.append({"m": "setAttr", "k": k, "v": {"t": t, "v": v}})
    sa("format-url", "str", "http://example.org")
    for v in ([1, 0], [2, 0], [2, 0, 0], [2, 1, 0], [3, 5], []):
        sa("format-version", "ints", v)
    sa("format-version", "int", 2)
    sa("format-version", "str", "2.1")
    for v in ("bogus table", "otu table", "OTU TABLE"):
        sa("type", "str", v)
    for v in ([n + 1, m], [n, m + 1], [n, m, 1], [n], [m, n], [0, 0]):
        sa("shape", "ints", v)
    sa("shape", "reals", [str(n), str(m)])
    sa("shape", "int", n)
    sa("nnz", "int", -1)
    sa("nnz", "int", 0)
    sa("nnz", "real", "7/2")
    sa("nnz", "str", "3")
    sa("generated-by", "int", 0)
    sa("creation-date", "str", "not a date")
    sa("creation-date", "int", 5)
    sa("creation-date", "str", "2011-12-19")
    paths = [p for p, _ in tree["nodes"]]
    for p in paths:
        out.append({"m": "deleteNode", "p": p})
        out.append({"m": "renameNode", "p": p, "last": p[-1] + "_x"})
    for ax, bound in (("observation", m), ("sample", n)):
        for v in (bound, bound + 5, -1, 0):
            out.append({"m": "setIndex", "ax": ax, "pos": 0, "v": v})
        out.append({"m": "retypeData", "ax": ax})
        out.append({"m": "retypeIndices", "ax": ax})
        cnt = n if ax == "observation" else m
        if cnt >= 2:
            out.append({"m": "dupId", "ax": ax, "i": 0, "j": 1})
        for i in sorted({0, cnt - 1}):
            out.append({"m": "blankId", "ax": ax, "i": i})
        out.append({"m": "dropLastId", "ax": ax})
        for g in ("metadata", "group-metadata", "matrix"):
            out.append({"m": "groupToDataset", "p": [ax, g]})
        for p in paths:
            if len(p) == 3 and p[0] == ax and p[1] == "metadata":
                out.append({"m": "resizeDataset", "p": p, "k": cnt + 1})
                out.append({"m": "resizeDataset", "p": p, "k": max(cnt - 1, 0)})
    return out


def h5_case(ctx, case, base_path, base_tree, muts, n, m, is_base=False, tags=(), with_exit=False,
            written_from=None, fvs=(None,), in_place=False):
    """one HDF5 case: the base file (copied unless `in_place`), mutated through h5py, observed once,
    validated under each spelling of the format_version argument in `fvs`"""
    if in_place:
        path = base_path
    else:
        path = os.path.join(TMP, F_CASE_H5)
        shutil.copyfile(base_path, path)
    for mu in muts:
        h_apply(mu, path)
    tree, dok = observe_h5(path)
    classes = [h5_class(mu, n, m) for mu in muts]
    base_tags = tuple(tags) + ("hdf5",) + tuple(sorted(set(classes)))
    out = None
    for k, fv in enumerate(fvs):
        verdict, nlines = real_validate(path, fv)
        req = {"op": "h5", "tree": tree, "date_ok": dok, "verdict": verdict, "nlines": nlines,
               "is_base": is_base, "fv": fv}
        if muts:
            req["base"] = base_tree
            req["muts"] = muts
        if written_from is not None:
            req["written_from"] = {"obs": written_from["obs"], "samp": written_from["samp"]}
        r = ctx.driver.ask(req)
        if k > 0:
            ctx.evaluations += 1
        if k == 0:
            if len(muts) <= 1:
                ctx.count("hdf5:%s->%s" % (classes[0] if classes else "written", verdict))
            else:
                ctx.count("hdf5:double->%s" % verdict)
        ctx.count("hdf5:format_version=%s->%s" % (fv, verdict))
        tg = base_tags + ("format_version=%s" % fv,)
        fcase = dict(case, fv=fv)
        if not r["holds"]:
            unchecked = tuple("violated:%s" % c for c in r["model"]["violated"])
            if r["clause"] == "corrupt_rejected" and k == 0:
                for c in sorted(set(classes)):
                    if c in H5_PASS_CLASSES:
                        ctx.count("hdf5:accepted-corrupt:%s" % c)
            ctx.fail(fcase, r["clause"], tg + unchecked, detail={"model": r["model"], "verdict": verdict})
        elif not r["agree"]:
            ctx.diverge(fcase, "model differs: %s" % ",".join(r["differs"]), tg,
                        detail={"model": r["model"], "verdict": verdict, "nlines": nlines})
        if with_exit:
            check_exit(ctx, fcase, path, r["model"]["exit"], verdict, tg, fv)
        if out is None:
            out = (r, verdict)
    return out


def write_h5(spec, route, path, compress=True):
    import h5py
    t = core.build(spec, route)
    with h5py.File(path, "w") as f:
        t.to_hdf5(f, "c15-harness", compress=compress)


# ----------------------------------------------------------------------------- written files
# text that needs escaping / decoding somewhere between the table and the file: quotes, backslashes
# (incl. sequences that look like JSON escapes), control characters, non-ASCII
HARD_IDS = ['d"q', 'dir\\name', 'back\\sl', 'ta\tb', 'nl\nx', '"', '\\', 'bell\x07', "q'q", '\u00e91', '\u65e5\u672c',
            'x/y', 'a b', '\\u0041', 'tr\\', '{"id": 1}', '\u00b5', 'a,b', '[', ' lead',
            'end\n', 'end ', 'end\t', '\u00e9\u00e8\u00ea\u00eb\u00e0\u00e2\u00e4\u00f9', '\U0001F9EC\U0001F9EC', 'L' * 97,
            '\u65e5' * 40]


def hard_id_spec(rng, mode, classes, max_n=5, max_m=5):
    """a table whose IDs carry the hard characters on the chosen axis/axes (mode: obs | samp | both)"""
    spec = gen_base_spec(rng, classes, max_n=max_n, max_m=max_m, min_n=2, min_m=2)

    def harden(ids, prefix):
        # distinct by construction: distinct pool entries, one fixed decoration per list (prefix or
        # suffix), and a plain id that cannot collide with a decorated hard one
        pool = list(HARD_IDS)
        rng.shuffle(pool)
        if rng.random() < 0.5:
            out = [prefix + x for x in pool[:len(ids)]]
        else:
            out = [x + prefix for x in pool[:len(ids)]]
        if len(out) > 2 and rng.random() < 0.5:
            out[rng.randrange(len(out))] = prefix + "_plain"
        assert len(set(out)) == len(out) and all(out), out
        return out
    if mode in ("obs", "both"):
        spec["obs"] = harden(spec["obs"], "O")
    else:
        spec["obs"] = ["O%d" % i for i in range(len(spec["obs"]))]
    if mode in ("samp", "both"):
        spec["samp"] = harden(spec["samp"], "S")
    else:
        spec["samp"] = ["S%d" % i for i in range(len(spec["samp"]))]
    return spec


def explicit_dates():
    """explicit creation dates: naive, with microseconds, timezone-aware (UTC, negative and fractional-hour offsets)"""
    from datetime import timezone, timedelta
    return [("naive", datetime(2021, 3, 4, 5, 6, 7)),
            ("micro", datetime(2021, 3, 4, 5, 6, 7, 891011)),
            ("aware-utc", datetime(2021, 3, 4, 5, 6, 7, 891011, tzinfo=timezone.utc)),
            ("aware-neg", datetime(2021, 3, 4, 5, 6, 7, tzinfo=timezone(timedelta(hours=-7)))),
            ("aware-half", datetime(2021, 12, 31, 23, 59, 59, 5, tzinfo=timezone(timedelta(hours=5, minutes=30))))]


def parse_date(s):
    return None if s is None else datetime.fromisoformat(s)


def shuffled(rng, xs):
    xs = list(xs)
    rng.shuffle(xs)
    return tuple(xs)


def check_rejected(ctx, case, path, bad_fvs, tags):
    """a refused spelling of format_version must raise (ValueError) and leave later calls unaffected"""
    fv = ctx.rng.choice(bad_fvs)
    verdict, _ = real_validate(path, fv)
    ctx.count("rejected-format_version->%s" % verdict)
    if verdict != "crash":
        ctx.diverge(dict(case, fv=fv), "a refused format_version was not refused", tuple(tags) + ("format_version=%s" % fv,),
                    detail={"verdict": verdict})


def pick_generated_by(rng):
    return rng.choice(["c15-harness", "c15-harness"] + core.NASTY_TEXTS)


def with_strict_warnings(strict):
    """a warnings filter that turns every warning into an error (the code under test must not depend on
    the caller's filter), or the harness's usual silence"""
    import warnings
    cm = warnings.catch_warnings()
    cm.__enter__()
    warnings.simplefilter("error" if strict else "ignore")
    return cm


def written_json_case(ctx, spec, route, with_exit=False, tags=(), path=None, creation_date=None,
                      fvs=JSON_FVS, t=None, direct_io=False, poke=True, reject=False):
    """write with the real to_json; a writer exception or text that is not JSON is a file the library
    wrote that cannot be reported valid.  `t`: an already built (possibly updated in place) table whose
    CURRENT content `spec` describes."""
    cd = creation_date.isoformat() if creation_date is not None else None
    case = {"fmt": "json", "spec": spec, "route": route, "muts": [], "creation_date": cd, "direct_io": direct_io}
    ctx.case({"fmt": "json", "spec": core.spec_obs(spec), "route": route, "cd": cd, "dio": direct_io,
              "tags": list(tags)}, nontrivial=True)
    if t is None:
        try:
            t = core.build(spec, route)
        except Exception as e:
            # the table itself cannot be constructed: a generator defect, not a file the library wrote
            ctx.count("generator:unbuildable-spec:%s" % type(e).__name__)
            ctx.notes.append("skipped unbuildable spec (generator defect): obs=%r samp=%r" % (spec["obs"], spec["samp"]))
            return
    if poke:
        for what in core.poke_layout(t, ctx.rng):
            ctx.count("layout-poke:%s" % what.split("!")[0])
        ctx.count("layout-at-write:%s" % t.matrix_data.getformat())
    try:
        if direct_io:
            import io
            sio = io.StringIO()
            t.to_json(pick_generated_by(ctx.rng), direct_io=sio, creation_date=creation_date)
            text = sio.getvalue()
            ctx.count("json:direct_io")
        else:
            text = t.to_json(pick_generated_by(ctx.rng), creation_date=creation_date)
    except Exception as e:
        ctx.count("json:written->writer-raised")
        ctx.fail(case, "written_valid", tuple(tags) + ("json", "writer-raised:%s" % type(e).__name__))
        return
    try:
        doc = json.loads(text)
        if not isinstance(doc, dict):
            doc = None
    except ValueError:
        doc = None
    if doc is None:
        tags = tuple(tags) + ("unparsable-text",)
    if reject:
        with open(path or os.path.join(TMP, F_CASE), "w") as f:
            f.write(text)
        check_rejected(ctx, case, path or os.path.join(TMP, F_CASE), JSON_BAD_FVS, tuple(tags) + ("json",))
    json_case(ctx, case, doc, [], doc=doc, text=text, is_base=True, with_exit=with_exit, written_from=spec,
              tags=tags, fvs=shuffled(ctx.rng, fvs), path=path)


def custom_md_formatter(grp, header, md, compression):
    """a caller-supplied metadata formatter (format_fs): one text per ID, upper-cased"""
    import h5py
    vals = [str(m[header]).upper() if m is not None and m.get(header) is not None else "" for m in md]
    grp.create_dataset(header, shape=(len(vals),), dtype=h5py.string_dtype(), data=vals)


# ONE dict object handed to every call that uses the custom formatter (a writer must not keep or change it)
REUSED_FORMAT_FS = {"grp": custom_md_formatter}


def written_h5_case(ctx, spec, route, compress, base_path, with_exit=False, tags=(), creation_date=None,
                    fvs=H5_FVS, via="to_hdf5", t=None, format_fs=None, poke=True, reject=False,
                    route_override=None):
    """write with the real to_hdf5 (or save_table) onto `base_path` and validate that very file"""
    if route_override is not None and t is None:
        route = route_override
    cd = creation_date.isoformat() if creation_date is not None else None
    case = {"fmt": "hdf5", "spec": spec, "route": route, "muts": [], "compress": bool(compress),
            "compress_as": repr(compress), "creation_date": cd,
            "via": via, "format_fs": sorted(format_fs) if format_fs else None}
    ctx.case({"fmt": "hdf5", "spec": core.spec_obs(spec), "route": route, "c": int(compress), "cd": cd,
              "via": via, "tags": list(tags), "ffs": sorted(format_fs) if format_fs else None}, nontrivial=True)
    if t is None:
        try:
            t = core.build(spec, route)
        except Exception as e:
            ctx.count("generator:unbuildable-spec:%s" % type(e).__name__)
            ctx.notes.append("skipped unbuildable spec (generator defect): obs=%r samp=%r" % (spec["obs"], spec["samp"]))
            return
    if poke:
        for what in core.poke_layout(t, ctx.rng):
            ctx.count("layout-poke:%s" % what.split("!")[0])
        ctx.count("layout-at-write:%s" % t.matrix_data.getformat())
    try:
        import h5py
        if via == "save_table":
            from biom.parse import save_table
            if os.path.exists(base_path):
                os.remove(base_path)
            kw = {"generated_by": pick_generated_by(ctx.rng), "compress": compress}
            if creation_date is not None:
                kw["creation_date"] = creation_date
            if format_fs:
                kw["format_fs"] = {k: custom_md_formatter for k in format_fs}
            save_table(t, base_path, **kw)
        else:
            with h5py.File(base_path, "w") as f:
                ffs = REUSED_FORMAT_FS if format_fs == ["grp"] else \
                    ({k: custom_md_formatter for k in format_fs} if format_fs else None)
                t.to_hdf5(f, pick_generated_by(ctx.rng), compress=compress, creation_date=creation_date,
                          format_fs=ffs)
                if ffs is REUSED_FORMAT_FS and (list(ffs) != ["grp"] or ffs["grp"] is not custom_md_formatter):
                    ctx.diverge(case, "to_hdf5 changed the caller's format_fs dict", tuple(tags) + ("hdf5",))
        if format_fs:
            ctx.count("hdf5:format_fs")
        tree, _ = observe_h5(base_path)
    except Exception as e:
        ctx.count("hdf5:written->writer-raised")
        ctx.fail(case, "written_valid", tuple(tags) + ("hdf5", "writer-raised:%s" % type(e).__name__))
        return
    if reject:
        check_rejected(ctx, case, base_path, H5_BAD_FVS, tuple(tags) + ("hdf5",))
    h5_case(ctx, case, base_path, tree, [], len(spec["obs"]), len(spec["samp"]), is_base=True,
            with_exit=with_exit, written_from=spec, tags=tags, fvs=shuffled(ctx.rng, fvs), in_place=True)


# ----------------------------------------------------------------------------- in-place updates, aliasing
def near_duplicate_spec(rng, classes):
    """IDs that look like each other without being equal (extensions, blanks, case variants, doubled):
    none of them may be reported as a duplicate, and every one must come back on load"""
    spec = gen_base_spec(rng, classes, max_n=3, max_m=3, min_n=2, min_m=2)
    for ax, p in (("obs", "Ob"), ("samp", "Sa")):
        seed_ids = [p, p + "c"]
        ids = seed_ids + core.tricky_unknown_ids(seed_ids)
        ids = [i for k, i in enumerate(ids) if i and i not in ids[:k]]
        rng.shuffle(ids)
        ids = ids[:rng.randint(4, min(8, len(ids)))]
        spec[ax] = ids
    n, m = len(spec["obs"]), len(spec["samp"])
    spec["rows"] = core.gen_grid(rng, n, m, 0.6, classes)
    spec["omd"] = None
    spec["smd"] = None
    return spec


def reversed_samples(spec):
    """spec of `t.sort_order(reversed(sample ids))`"""
    out = copy.deepcopy(spec)
    out["samp"] = list(reversed(spec["samp"]))
    out["rows"] = [list(reversed(r)) for r in spec["rows"]]
    if spec.get("smd") is not None:
        out["smd"] = list(reversed(copy.deepcopy(spec["smd"])))
    return out


INPLACE_OPS = ["update_ids_samp", "update_ids_obs", "transform_samp", "transform_obs", "del_metadata",
               "transform_current"]


def apply_inplace(rng, t, spec, op=None):
    """one in-place change that keeps the table object (and, where the library can, its matrix / ID
    arrays / metadata objects); returns (name, spec of the CURRENT content)"""
    spec = copy.deepcopy(spec)
    op = op or rng.choice(INPLACE_OPS)
    if op.startswith("update_ids"):
        ax, key = ("sample", "samp") if op.endswith("samp") else ("observation", "obs")
        longest = max(len(i) for i in spec["obs"] + spec["samp"])
        # new IDs are LONGER than every existing one (fixed-width ID arrays)
        new = [i + "_renamed_" + "z" * (longest + k) for k, i in enumerate(spec[key])]
        t.update_ids(dict(zip(spec[key], new)), axis=ax, inplace=True)
        spec[key] = new
    elif op.startswith("transform"):
        if op == "transform_current":
            # along the axis whose layout is current: the matrix object is kept
            ax = "observation" if t.matrix_data.getformat() == "csr" else "sample"
        else:
            ax = "sample" if op.endswith("samp") else "observation"
        t.transform(lambda d, i, m: d * 2, axis=ax, inplace=True)
        spec["rows"] = [[v * 2 for v in r] for r in spec["rows"]]
    else:
        t.del_metadata(axis="whole")
        spec["omd"] = None
        spec["smd"] = None
    return op, spec


def inplace_and_alias_cases(ctx, rng, spec, shared, k):
    """themes (ii)+(vii): write, change in place, write again (judged against the CURRENT content); a table
    derived from the source is changed in place and the SOURCE, written again, must be as before"""
    src = core.build(spec, rng.choice(core.ROUTES))
    tg = ("inplace",)
    written_json_case(ctx, spec, "live", tags=tg + ("first-write",), path=shared, t=src)
    written_h5_case(ctx, spec, "live", True, shared, tags=tg + ("first-write",), t=src, fvs=(None, "2.1.0"))
    # a derived table, changed in place, must not disturb the source
    dspec = reversed_samples(spec)
    derived = src.sort_order(dspec["samp"])
    derived.type = spec["type"]
    op, dspec2 = apply_inplace(rng, derived, dspec)
    ctx.count("inplace-on-derived:%s" % op)
    written_json_case(ctx, spec, "live", tags=("alias", "source-after:%s" % op), path=shared, t=src,
                      direct_io=bool(k % 2), poke=bool(k % 3))
    written_json_case(ctx, dspec2, "live", tags=("alias", "derived-after:%s" % op), path=shared, t=derived,
                      poke=False)
    if k % 2 == 0:
        written_h5_case(ctx, spec, "live", False, shared, tags=("alias", "source-after:%s" % op), t=src,
                        fvs=(None, "2.1"))
        written_h5_case(ctx, dspec2, "live", True, shared, tags=("alias", "derived-after:%s" % op), t=derived,
                        fvs=(None,))
    # the source itself changed in place, every kind of change in turn: each export is judged against the
    # CURRENT content; no accessor call in between, so that the table keeps whatever objects it can keep
    cur = spec
    for j, op2 in enumerate(shuffled(rng, INPLACE_OPS)):
        written_json_case(ctx, cur, "live", tags=tg + ("export-before:%s" % op2,), path=shared, t=src, poke=False,
                          fvs=(None,))
        op2, cur = apply_inplace(rng, src, cur, op2)
        ctx.count("inplace-on-source:%s" % op2)
        written_json_case(ctx, cur, "live", tags=tg + ("rewrite-after:%s" % op2,), path=shared, t=src, poke=False,
                          fvs=(None,))
        if j == 0:
            written_h5_case(ctx, cur, "live", True, shared, tags=tg + ("rewrite-after:%s" % op2,), t=src,
                            fvs=(None, "2.1.0"), poke=False)
    # and the derived table is still what it was
    written_json_case(ctx, dspec2, "live", tags=("alias", "derived-after-source-changes",), path=shared, t=derived)


# ----------------------------------------------------------------------------- less travelled inputs
EDGE_VALUES = [16777217.0, 2.0 ** 53 - 1, 0.1, 1.0 / 3.0, 5e-324, 2.2250738585072014e-308, 1e-310,
               123456789.12345679, -0.1, 1e-7, 33554433.0, 1.7976931348623157e308]


def text_class_spec(rng, kind, classes):
    """IDs / metadata / header texts from the less travelled classes"""
    spec = gen_base_spec(rng, classes, max_n=5, max_m=5, min_n=2, min_m=2)
    n, m = len(spec["obs"]), len(spec["samp"])
    if kind == "twins":
        # NFC and NFD spellings of one text are two DISTINCT IDs on one axis
        tw = core.twin_ids(rng, 2)
        spec["obs"] = (tw + ["O%d" % i for i in range(n)])[:max(n, 2)]
        tw2 = core.twin_ids(rng, 1)
        spec["samp"] = (tw2 + ["S%d" % i for i in range(m)])[:max(m, 2)]
    elif kind == "nasty":
        pool = list(core.NASTY_TEXTS)
        rng.shuffle(pool)
        spec["obs"] = pool[:n]
        rng.shuffle(pool)
        spec["samp"] = [x + "|s" for x in pool[:m]]
    elif kind == "shared-names":
        # the same texts name observations and samples
        k = max(n, m)
        names = (core.twin_ids(rng, 1) + ["x%d" % i for i in range(k)] + ["50%", "a b"])
        rng.shuffle(names)
        spec["obs"] = names[:n]
        spec["samp"] = list(reversed(names))[:m] if rng.random() < 0.5 else names[:m]
    n, m = len(spec["obs"]), len(spec["samp"])
    spec["rows"] = core.gen_grid(rng, n, m, 0.6, classes)
    nasty = core.NASTY_TEXTS
    spec["omd"] = [{rng.choice(["k%", "\"q", "key"]): rng.choice(nasty), "n": i} for i in range(n)] \
        if rng.random() < 0.6 else None
    if spec["omd"] is not None:
        keys = list(spec["omd"][0])
        spec["omd"] = [{keys[0]: rng.choice(nasty), "n": i} for i in range(n)]
    spec["smd"] = [{"note": rng.choice(nasty)} for _ in range(m)] if rng.random() < 0.6 else None
    if rng.random() < 0.4:
        spec["omd"] = field_named_md(rng, spec["obs"], spec["samp"], "obs")
        spec["smd"] = field_named_md(rng, spec["samp"], spec["obs"], "samp")
    if rng.random() < 0.5:
        spec["table_id"] = rng.choice(nasty)
    assert len(set(spec["obs"])) == n and len(set(spec["samp"])) == m, (spec["obs"], spec["samp"])
    return spec


def edge_value_spec(rng):
    spec = gen_base_spec(rng, ("count",), max_n=4, max_m=4, min_n=2, min_m=2, density=0.8)
    for r in spec["rows"]:
        for j in range(len(r)):
            if r[j] != 0 and rng.random() < 0.7:
                r[j] = rng.choice(EDGE_VALUES)
    return spec


def degenerate_spec(rng, n, m):
    spec = {"obs": ["O%d" % i for i in range(n)], "samp": ["S%d" % i for i in range(m)],
            "rows": [[float(rng.randint(1, 9)) for _ in range(m)] for _ in range(n)],
            "omd": None, "smd": None, "type": spell_type(rng)}
    return spec


def table_with_group_md(spec):
    from biom import Table
    t = core.build(spec, "csr")
    return Table(t.matrix_data, spec["obs"], spec["samp"], copy.deepcopy(spec.get("omd")),
                 copy.deepcopy(spec.get("smd")), type=spec["type"],
                 observation_group_metadata={"phylogeny": ("newick", "((a:0.1,b:0.2):0.3,c);")},
                 sample_group_metadata={"rel": ("text", "50% of \"them\"")})


# metadata categories named like the top-level fields of the JSON format (the text-level subsetter looks
# fields up in the TEXT); observation metadata never gets "columns": that one is known finding F-C14-2
FIELD_NAMES = ["type", "date", "format", "shape", "rows", "data", "id", "format_url", "matrix_type",
               "generated_by", "matrix_element_type", "columns"]


def field_named_md(rng, ids, other_ids, axis):
    names = [x for x in FIELD_NAMES if not (axis == "obs" and x == "columns")]
    rng.shuffle(names)
    cats = names[:rng.randint(1, 4)]
    # a category named like an ID of this axis, one named like an ID of the other axis
    cats += [rng.choice(ids), rng.choice(other_ids)] if ids and other_ids else []
    cats = [c for k, c in enumerate(cats) if c not in cats[:k]]
    vals = ["gut", "2019/03/01", "1.0.0", "x y", "7", "OTU table"]
    return [{c: rng.choice(vals) + str(i) for c in cats} for i in range(len(ids))]


def run_cli(cmd, args):
    """invoke a sub-command object of biom.cli in-process; returns (exit code, exception name | None)"""
    from click.testing import CliRunner
    saved = os.dup(1)
    try:
        res = CliRunner().invoke(cmd, args)
    finally:
        os.dup2(saved, 1)
        os.close(saved)
    exc = res.exception
    return res.exit_code, (type(exc).__name__ if exc is not None and not isinstance(exc, SystemExit) else None)


def judge_output_file(ctx, case, out, spec_ids, spec_full, tags, fvs_json=(None,), fvs_h5=(None, "2.1.0")):
    """a file some front end of the library wrote: it must be reported valid (written_valid), carry the
    table's IDs, and - JSON with the table's own values - be the document the writer model denotes"""
    import h5py
    if not os.path.exists(out):
        ctx.fail(case, "written_valid", tuple(tags) + ("no-output-file",))
        return
    if h5py.is_hdf5(out):
        try:
            tree, _ = observe_h5(out)
        except Exception as e:
            ctx.fail(case, "written_valid", tuple(tags) + ("hdf5", "unreadable:%s" % type(e).__name__))
            return
        n = len(spec_ids["obs"]) if spec_ids else 0
        m = len(spec_ids["samp"]) if spec_ids else 0
        h5_case(ctx, case, out, tree, [], n, m, is_base=True, written_from=spec_ids, tags=tags, fvs=fvs_h5,
                in_place=True)
    else:
        text = open(out).read()
        try:
            doc = json.loads(text)
            if not isinstance(doc, dict):
                doc = None
        except ValueError:
            doc = None
        if doc is None:
            tags = tuple(tags) + ("unparsable-text",)
        json_case(ctx, case, doc, [], doc=doc, text=text, is_base=True, written_from=spec_full, tags=tags,
                  fvs=fvs_json, path=out)


def cli_writer_cases(ctx, rng, shared, k):
    """files written by the command-line front ends (convert, normalize-table, add-metadata, subset-table)
    from a valid source file of a vocabulary-typed table"""
    from biom.cli.table_converter import convert
    from biom.cli.table_normalizer import normalize_table
    from biom.cli.metadata_adder import add_metadata
    from biom.cli.table_subsetter import subset_table
    import h5py
    exact = ("count", "smallcount", "dyadic", "neg")
    if k % 3 == 0:
        spec = hard_id_spec(rng, ("samp", "obs", "both")[(k // 3) % 3], exact)
    elif k % 3 == 1:
        # plain IDs, metadata categories named like top-level fields and like IDs
        spec = core.gen_spec(rng, max_n=5, max_m=5, min_n=2, min_m=2, classes=exact, alphabet="ascii", md=False)
        spec["type"] = spell_type(rng)
        spec["omd"] = field_named_md(rng, spec["obs"], spec["samp"], "obs")
        spec["smd"] = field_named_md(rng, spec["samp"], spec["obs"], "samp")
        ctx.count("cli-writer:field-named-metadata")
    else:
        spec = gen_base_spec(rng, exact, max_n=5, max_m=5, min_n=2, min_m=2)
        if k % 2:
            spec["omd"] = core.gen_md(rng, spec["obs"], "tax")
            spec["smd"] = core.gen_md(rng, spec["samp"], "text")
    src = os.path.join(TMP, F_CASE)
    t = core.build(spec, rng.choice(core.ROUTES))
    # plain-ID tables (k % 3 == 1) always go through the JSON text front ends; the others alternate
    src_fmt = "json" if (k % 3 == 1 or (k // 3) % 2 == 0) else "hdf5"
    if k % 3 == 2:
        src_fmt = "hdf5" if (k // 3) % 2 == 0 else "json"
    if src_fmt == "json":
        with open(src, "w") as f:
            if k % 4 == 3:
                t.to_json("c15-harness", direct_io=f)
            else:
                f.write(t.to_json("c15-harness"))
    else:
        with h5py.File(src, "w") as f:
            t.to_hdf5(f, "c15-harness")
    ids = {"obs": spec["obs"], "samp": spec["samp"]}
    plain = all("\n" not in i and "\r" not in i and i == i.strip() and i for i in spec["obs"] + spec["samp"])
    import re
    jobs = []
    required = []
    # convert, both targets, with and without --table-type (canonical spelling of the table's own type)
    canon = [v for v in VOCAB if v.lower() == spec["type"].lower()][0]
    for target in ("--to-json", "--to-hdf5"):
        for tt in ((), ("--table-type", canon)):
            jobs.append(("convert%s%s" % (target, "+type" if tt else ""), convert,
                         ["-i", src, "-o", shared, target] + list(tt), ids, spec))
    jobs.append(("normalize-p", normalize_table, ["-i", src, "-o", shared, "-p", "-a", rng.choice(["sample", "observation"])],
                 ids, None))
    jobs.append(("normalize-r", normalize_table, ["-i", src, "-o", shared, "-r"], ids, None))
    # the mapping-file grammar has its own quoting / comment rules (property C18): plain sample IDs only
    map_safe = all(re.match(r"^[A-Za-z0-9_.\-]+$", i) for i in spec["samp"])
    if plain and map_safe:
        mp = os.path.join(TMP, "map_%d.txt" % PID)
        with open(mp, "w") as f:
            f.write("#SampleID\tdepth\tnote\n")
            for i, sid in enumerate(spec["samp"]):
                f.write("%s\t%d\tn%d\n" % (sid, i, i))
        jobs.append(("add-metadata", add_metadata, ["-i", src, "-o", shared, "-m", mp, "--int-fields", "depth"], ids, None))
        jobs.append(("add-metadata-json", add_metadata, ["-i", src, "-o", shared, "-m", mp, "--output-as-json"],
                     ids, None))
    import re
    # the JSON text slicer behind `subset-table -j` is not string-aware (known findings F-C14-1..3 of C14):
    # JSON sources only with IDs free of quotes, brackets, braces, commas and backslashes
    slicer_safe = src_fmt == "hdf5" or all(re.match(r"^[A-Za-z0-9_. \-]+$", i) for i in spec["obs"] + spec["samp"])
    # the ids file is line- and tab-separated text
    if plain and slicer_safe and all(i.isprintable() and "\t" not in i for i in spec["obs"] + spec["samp"]):
        ip = os.path.join(TMP, "ids_%d.txt" % PID)
        for variant in ("once", "repeated"):
            ax = rng.choice(["sample", "observation"])
            axis_ids = spec["samp"] if ax == "sample" else spec["obs"]
            chosen = [i for i in axis_ids if rng.random() < 0.6] or axis_ids[:1]
            request = list(chosen)
            if variant == "repeated":
                # two ID lists concatenated: every chosen ID is named at least twice, in another order
                request = request + list(reversed(chosen)) + chosen[:1]
            else:
                rng.shuffle(request)
            expect = {"obs": spec["obs"], "samp": spec["samp"]}
            expect["samp" if ax == "sample" else "obs"] = [i for i in axis_ids if i in chosen]
            required.append(("subset-table:%s" % variant, subset_table,
                             [("-j" if src_fmt == "json" else "-i"), src, "-a", ax, "-s", ip, "-o", shared],
                             expect if src_fmt == "json" else None, None, request))
    # output path == input path
    for target in ("--to-json", "--to-hdf5"):
        jobs.append(("convert%s:in-place" % target, convert, ["-i", src, "-o", src, target], ids, spec))
    rng.shuffle(jobs)
    inplace_jobs = [j for j in jobs if j[0].endswith(":in-place")]
    other_jobs = [j for j in jobs if not j[0].endswith(":in-place")]
    todo = [j + (None,) for j in (other_jobs[:3] if ctx.quick() else other_jobs)] + required
    # the in-place conversion overwrites the source: last, and only one of the two
    todo += [j + (None,) for j in inplace_jobs[:1]]
    for name, cmd, args, sids, sfull, request in todo:
        out = args[args.index("-o") + 1]
        if out != src and os.path.exists(out):
            os.remove(out)
        if request is not None:
            with open(os.path.join(TMP, "ids_%d.txt" % PID), "w") as f:
                f.write("\n".join(request) + "\n")
        case = {"fmt": "cli", "spec": spec, "src_fmt": src_fmt, "cli": name, "request": request,
                "args": [a if a not in (src, shared) else ("<src>" if a == src else "<out>") for a in args]}
        ctx.case({"cli": name, "spec": core.spec_obs(spec), "src": src_fmt, "req": request}, nontrivial=True)
        ctx.count("cli-writer:%s:%s" % (name, src_fmt))
        code, exc = run_cli(cmd, args)
        tg = ("cli-writer:%s" % name, "source:%s" % src_fmt)
        if code != 0:
            ctx.count("cli-writer:%s:%s->exit%d" % (name, src_fmt, code))
            if name == "subset-table:repeated" and src_fmt == "hdf5" and exc == "ValueError" and not os.path.exists(out):
                # the HDF5 reader refuses a request that names an ID twice: nothing was written
                continue
            ctx.fail(case, "written_valid", tg + ("writer-raised:%s" % exc,))
            continue
        # normalised values / added metadata differ from the source table: only validity and IDs are judged
        judge_output_file(ctx, case, out, sids, sfull if name.startswith("convert--to-json") else None, tg)
    for fn in ("map_%d.txt" % PID, "ids_%d.txt" % PID):
        try:
            os.remove(os.path.join(TMP, fn))
        except OSError:
            pass


def less_travelled_cases(ctx, rng, shared):
    quick = ctx.quick()
    exact = ("count", "smallcount", "dyadic", "neg")
    import warnings
    # texts: normalisation twins, format-string / quoting / line-separator characters, names on both axes
    for i in range(9 if quick else 60):
        kind = ("twins", "nasty", "shared-names")[i % 3]
        spec = text_class_spec(rng, kind, exact)
        ctx.count("text-class:%s" % kind)
        strict = (i % 4 == 1)
        with warnings.catch_warnings():
            warnings.simplefilter("error" if strict else "ignore")
            written_json_case(ctx, spec, rng.choice(core.ROUTES), tags=("text:%s" % kind,) +
                              (("warnings-as-errors",) if strict else ()), path=shared, direct_io=bool(i % 2))
            written_h5_case(ctx, spec, rng.choice(core.ROUTES), bool(i % 2), shared,
                            tags=("text:%s" % kind,) + (("warnings-as-errors",) if strict else ()),
                            fvs=(None, "2.1.0"), via=("save_table" if i % 5 == 0 else "to_hdf5"))
    # value ranges: > 2**24 integers, non-dyadic fractions, denormals, extremes
    for i in range(4 if quick else 24):
        spec = edge_value_spec(rng)
        written_json_case(ctx, spec, rng.choice(core.ROUTES), tags=("edge-values",), path=shared, fvs=(None,))
        written_h5_case(ctx, spec, rng.choice(core.ROUTES), True, shared, tags=("edge-values",), fvs=(None,))
    # partially annotated axes (JSON; the HDF5 writer refuses inconsistent categories) and group metadata
    for i in range(3 if quick else 18):
        spec = gen_base_spec(rng, exact, max_n=5, max_m=5, min_n=3, min_m=3)
        spec["omd"] = [None if k % 2 else {"grp": "g%d" % k} for k in range(len(spec["obs"]))]
        spec["smd"] = [{"a": 1} if k == 0 else None for k in range(len(spec["samp"]))]
        written_json_case(ctx, spec, rng.choice(core.ROUTES), tags=("partial-metadata",), path=shared)
        spec2 = gen_base_spec(rng, exact, max_n=4, max_m=4, min_n=2, min_m=2)
        spec2["omd"] = core.gen_md(rng, spec2["obs"], "tax") if i % 2 else None
        spec2["smd"] = None
        t = table_with_group_md(spec2)
        written_h5_case(ctx, spec2, "live", bool(i % 2), shared, tags=("group-metadata",), t=t, fvs=(None, "2.1"))
        written_json_case(ctx, spec2, "live", tags=("group-metadata",), path=shared, t=table_with_group_md(spec2),
                          fvs=(None,))
    # degenerate shapes, HDF5 writer (beyond the property's stated 1..N x 1..M domain; the unchanged tree
    # holds the clause there): exactly one empty axis, the empty table, built directly and by filtering
    shapes = [(0, 3), (2, 0), (0, 0), (0, 1), (1, 0)]
    for i, (n, m) in enumerate(shapes if quick else shapes * 3):
        spec = degenerate_spec(rng, n, m)
        # sparse construction routes only: `Table(np.zeros((0, 1)), [], ['S0'])` (dense ndarray input with a
        # single ID on the non-empty axis) yields a 0x0 matrix on the unchanged tree - a constructor matter
        # outside this property, reported to the lead, not judged here
        written_h5_case(ctx, spec, rng.choice(["csr", "csc"]), bool(i % 2), shared,
                        tags=("degenerate:%dx%d" % (n, m),), fvs=(None, "2.1.0"),
                        via=("save_table" if i % 3 == 2 else "to_hdf5"))
        ctx.count("degenerate:%dx%d" % (n, m))
    for i, ax in enumerate(("observation", "sample") if quick else ("observation", "sample") * 3):
        full = gen_base_spec(rng, exact, max_n=4, max_m=4, min_n=2, min_m=2)
        full["omd"] = core.gen_md(rng, full["obs"], "tax")
        full["smd"] = core.gen_md(rng, full["samp"], "text")
        t = core.build(full, rng.choice(core.ROUTES))
        emptied = t.filter(lambda v, i_, md: False, axis=ax, inplace=False)
        spec = copy.deepcopy(full)
        if ax == "observation":
            spec["obs"], spec["rows"], spec["omd"] = [], [], None
        else:
            spec["samp"], spec["rows"], spec["smd"] = [], [[] for _ in full["obs"]], None
        written_h5_case(ctx, spec, "live", True, shared, tags=("degenerate:filtered-%s" % ax,), t=emptied,
                        fvs=(None, "2.1"))
        ctx.count("degenerate:filtered-%s" % ax)
    # sizes above 512 IDs
    for axis in (("sample",) if quick else ("sample", "observation")):
        spec = core.wide_spec(rng, n_axis=rng.choice([520, 600]), other=2, axis=axis, classes=("smallcount",))
        spec["type"] = spell_type(rng)
        written_json_case(ctx, spec, "csr", tags=("wide:>512",), path=shared, fvs=(None,), poke=False)
        written_h5_case(ctx, spec, "csc", True, shared, tags=("wide:>512",), fvs=(None,), poke=False)
    # a second write: the table read back from a file (metadata values as the readers hand them back:
    # numpy scalars, None, group metadata payloads) is written again, in both formats
    import h5py
    import numpy as np
    from biom import load_table
    for i in range(4 if quick else 24):
        spec = gen_base_spec(rng, exact, max_n=4, max_m=4, min_n=2, min_m=2)
        spec["omd"] = [{"n": k, "f": k / 4.0, "flag": bool(k % 2), "none": None, "taxonomy": ["a", "b%d" % k]}
                       for k in range(len(spec["obs"]))]
        spec["smd"] = [{"grp": "g%d" % k, "deep": {"a": {"b": [k, None]}}} if i % 2 else {"grp": "g%d" % k}
                       for k in range(len(spec["samp"]))]
        first = os.path.join(TMP, F_CASE)
        t0 = table_with_group_md(spec) if i % 2 == 0 else core.build(spec, rng.choice(core.ROUTES))
        if i % 2 == 0:
            # nested metadata is not an HDF5 matter: the HDF5 source carries the flat categories only
            with h5py.File(first, "w") as f:
                t0.to_hdf5(f, "c15-harness")
        else:
            with open(first, "w") as f:
                f.write(t0.to_json("c15-harness"))
        tg = ("second-write", "source:%s" % ("hdf5" if i % 2 == 0 else "json"))
        try:
            loaded = load_table(first)
        except Exception as e:
            # a file the library has just written from a valid table does not load: a failed case, not a harness crash
            ctx.case({"second_write_source": core.spec_obs(spec), "format": tg[1]}, nontrivial=True)
            ctx.fail({"spec": core.spec_obs(spec), "source": tg[1]}, "written_loads", tg,
                     detail={"error": "%s: %s" % (type(e).__name__, e)})
            continue
        written_json_case(ctx, spec, "live", tags=tg, path=shared, t=loaded, fvs=(None,))
        # nested metadata is outside what the HDF5 writer takes (per-category homogeneous values): the
        # JSON-sourced table is written to HDF5 without its nested category
        flat = copy.deepcopy(spec)
        flat["smd"] = [{"grp": e["grp"]} for e in spec["smd"]]
        written_h5_case(ctx, flat, "live", rng.choice([True, False, 1, 0, np.True_, np.False_]), shared, tags=tg,
                        t=load_table(first) if i % 2 == 0 else None, fvs=(None, "2.1.0"),
                        route_override=rng.choice(core.ROUTES))
    # command-line front ends as writers
    for k in range(8 if quick else 24):
        cli_writer_cases(ctx, rng, shared, k)


# ----------------------------------------------------------------------------- specs
# ----------------------------------------------------------------------------- specs
def gen_base_spec(rng, classes, max_n=4, max_m=4, min_n=1, min_m=1, density=None):
    spec = core.gen_spec(rng, max_n=max_n, max_m=max_m, min_n=min_n, min_m=min_m, classes=classes,
                         density=density)
    spec["type"] = spell_type(rng)
    return spec


def spell_type(rng):
    """a vocabulary type in some case spelling (the format treats the type case-insensitively)"""
    t = rng.choice(VOCAB)
    return rng.choice([t, t, t.lower(), t.upper(), t.title(), t.swapcase()])


DUP_ROW_DOC = {
    "id": "None", "format": "Biological Observation Matrix 1.0.0", "format_url": "http://biom-format.org",
    "matrix_type": "sparse", "generated_by": "c15-corpus", "date": "2014-06-03T14:24:40.884420",
    "type": "OTU table", "matrix_element_type": "float", "shape": [2, 2],
    "data": [[0, 0, 1.0], [1, 1, 2.0]],
    "rows": [{"id": "GG_OTU_1", "metadata": None}, {"id": "GG_OTU_1", "metadata": None}],
    "columns": [{"id": "Sample1", "metadata": None}, {"id": "Sample2", "metadata": None}]}

ALL_ZERO_SPEC = {"obs": ["a", "b"], "samp": ["x", "y", "z"], "rows": [[0.0, 0.0, 0.0], [0.0, 0.0, 0.0]],
                 "omd": None, "smd": None, "type": "OTU table"}


def fixed_corpus(ctx):
    # repaired defect fbc97158: a file written with a timezone-aware creation date was reported invalid
    shared = os.path.join(TMP, F_SHARED)
    for name, dt in explicit_dates():
        if name.startswith("aware"):
            written_json_case(ctx, MD_SPEC, "dense", with_exit=True, tags=("corpus", "creation-date:%s" % name),
                              path=shared, creation_date=dt)
            written_h5_case(ctx, MD_SPEC, "dense", True, shared, with_exit=True,
                            tags=("corpus", "creation-date:%s" % name), creation_date=dt)
    # repaired defect 4f718bb4: a JSON file with a duplicated row id was reported valid
    case = {"fmt": "json", "doc": DUP_ROW_DOC, "muts": [], "corpus": "dup-row-id (fixed 4f718bb4)"}
    ctx.case(case)
    json_case(ctx, case, DUP_ROW_DOC, [], tags=("corpus", "dup-row-id"), with_exit=True)
    good = copy.deepcopy(DUP_ROW_DOC)
    good["rows"][1]["id"] = "GG_OTU_2"
    mu = [{"m": "dupId", "ax": "rows", "i": 0, "j": 1}]
    case = {"fmt": "json", "doc": good, "muts": mu, "corpus": "dup-row-id by mutation"}
    ctx.case(case)
    json_case(ctx, case, good, mu, tags=("corpus", "dup-row-id"))
    mu = [{"m": "dupId", "ax": "columns", "i": 1, "j": 0}]
    case = {"fmt": "json", "doc": good, "muts": mu, "corpus": "dup-column-id by mutation"}
    ctx.case(case)
    json_case(ctx, case, good, mu, tags=("corpus", "dup-col-id"))
    # repaired defect e8ba4fdc: the all-zero table was written, reported valid, and could not be loaded
    text = written_json(ALL_ZERO_SPEC)
    case = {"fmt": "json", "spec": ALL_ZERO_SPEC, "route": "dense", "muts": [],
            "corpus": "all-zero table (fixed e8ba4fdc)"}
    ctx.case(case)
    doc0 = loads_written(ctx, text, ALL_ZERO_SPEC, "corpus-all-zero")
    if doc0 is not None:
        json_case(ctx, case, doc0, [], text=text, is_base=True, tags=("corpus", "all-zero-data"),
                  with_exit=True, written_from=ALL_ZERO_SPEC)


MD_SPEC = {"obs": ["a", "b"], "samp": ["x", "y", "z"], "rows": [[1.0, 0.0, 2.0], [0.0, 3.5, 0.0]],
           "omd": [{"taxonomy": ["k__A", "p__x"]}, {"taxonomy": ["k__B", "p__y"]}],
           "smd": [{"grp": "a"}, {"grp": "b"}, {"grp": "c"}], "type": "OTU table"}


def fixed_corpus_h5(ctx):
    # repaired defect dd41daf0: a failed per-version metadata check (missing metadata group, category of
    # the wrong length, version mismatch) left valid_table True
    bp = os.path.join(TMP, F_BASE_H5)
    write_h5(MD_SPEC, "dense", bp)
    tree, _ = observe_h5(bp)
    for mu in ({"m": "deleteNode", "p": ["observation", "metadata"]},
               {"m": "deleteNode", "p": ["sample", "group-metadata"]},
               {"m": "resizeDataset", "p": ["observation", "metadata", "taxonomy"], "k": 3},
               {"m": "setAttr", "k": "format-version", "v": {"t": "ints", "v": [2, 0]}}):
        case = {"fmt": "hdf5", "spec": MD_SPEC, "route": "dense", "muts": [mu],
                "corpus": "metadata check ignored (fixed dd41daf0)"}
        ctx.case(case)
        h5_case(ctx, case, bp, tree, [mu], 2, 3, tags=("corpus", "md-check"), with_exit=True, fvs=H5_FVS)




def loads_written(ctx, text, spec, tag):
    """the writer's own text parsed; when it is not JSON that is a failed case (written_valid), never a harness crash"""
    try:
        return json.loads(text)
    except ValueError as e:
        ctx.case({"fmt": "json", "base": base_key(spec), "muts": [], "at": tag}, nontrivial=True)
        ctx.fail({"fmt": "json", "spec": spec, "route": "dense", "muts": []}, "written_valid",
                 ("json", "written", "base-document-not-json", tag), detail={"error": str(e)})
        return None


# ----------------------------------------------------------------------------- run
def run(ctx):
    os.makedirs(TMP, exist_ok=True)
    try:
        _run(ctx)
    finally:
        for fn in (F_CASE, F_CASE_H5, F_BASE_H5, F_SHARED):
            try:
                os.remove(os.path.join(TMP, fn))
            except OSError:
                pass


def _run(ctx):
    rng = ctx.rng
    quick = ctx.quick()
    ctx.rule = ("base files written by the real library (to_json text / to_hdf5 file) from gen_spec tables with a "
                "vocabulary type; every single mutation of the grammar and (quick: a sample of / thorough: every) "
                "double mutations applied to the parsed JSON / to the HDF5 file via h5py; non-trivial = written "
                "file or at least one mutation that changes the document; distinct = distinct (base, mutation list)")
    ctx.trusted = ["datetime.strptime is the oracle parameter dateOk of the model (evaluated by the harness)",
                   "h5py / json decode the files into the logical tree / document the model sees",
                   "python twins of `apply`/`applyH` (checked against Lean on every mutated case)"]
    ctx.assumptions = ["format_version ranges over the accepted spellings (JSON: None, 1.0.0; HDF5: None, 2.1, 2.1.0, "
                       "2.0, 2.0.0); rejected spellings raise before validation and are not enumerated",
                       "top-level JSON value is an object; NaN/Infinity literals not generated"]
    fixed_corpus(ctx)
    fixed_corpus_h5(ctx)

    exact = ("count", "smallcount", "dyadic", "neg")
    # ---- written files are valid (under every spelling of format_version that requests their version) and
    # load back: all value classes, all routes, explicit creation dates; JSON and HDF5 files are written
    # ALTERNATELY ONTO THE SAME PATH within this process and each is validated there
    shared = os.path.join(TMP, F_SHARED)
    dates = explicit_dates()
    n_written = 44 if quick else 240
    import contextlib
    from biom import err as biom_err
    for i in range(n_written):
        spec = gen_base_spec(rng, core.VALUE_CLASSES if i % 2 else exact, max_n=6, max_m=6)
        route = rng.choice(core.ROUTES)
        dn, dt = dates[i % len(dates)] if i % 2 == 0 else ("now", None)
        tg = ("creation-date:%s" % dn,)
        ctx.count("written:creation-date:%s" % dn)
        # a share of the cases runs under a non-default error profile (non-empty tables: nothing may change)
        prof = [None, None, {"empty": "raise"}, {"all": "warn"}, {"empty": "call"}][i % 5]
        ctx.count("written:error-profile:%s" % (prof,))
        import warnings
        with (biom_err.errstate(**prof) if prof else contextlib.nullcontext()), warnings.catch_warnings():
            warnings.simplefilter("ignore")
            written_json_case(ctx, spec, route, with_exit=(i < 10), path=shared, creation_date=dt, tags=tg,
                              direct_io=(i % 3 == 1), reject=(i % 7 == 0))
            if i % 2 == 0 or not quick:
                spec2 = gen_base_spec(rng, core.VALUE_CLASSES, max_n=6, max_m=6)
                via = "save_table" if i % 4 == 0 else "to_hdf5"
                ffs = None
                if i % 6 == 0:
                    # a caller-supplied formatter early in the run; later default writes must be unaffected
                    spec2["omd"] = core.gen_md(rng, spec2["obs"], "text")
                    ffs = ["grp"]
                written_h5_case(ctx, spec2, rng.choice(core.ROUTES), bool(i % 3), shared, with_exit=(i < 10),
                                creation_date=dt, tags=tg, via=via, format_fs=ffs, reject=(i % 8 == 0))
    # IDs that resemble each other (blanks, case, extensions, doubled): no false duplicate, all come back
    for i in range(6 if quick else 40):
        spec = near_duplicate_spec(rng, exact)
        written_json_case(ctx, spec, rng.choice(core.ROUTES), tags=("near-duplicate-ids",), path=shared)
        if i % 2 == 0 or not quick:
            written_h5_case(ctx, near_duplicate_spec(rng, exact), rng.choice(core.ROUTES), True, shared,
                            tags=("near-duplicate-ids",), fvs=(None, "2.1.0"))
    # size thresholds: >= 64 IDs on one axis; one metadata text >= 64 KiB; a very long ID
    for i, axis in enumerate(("sample", "observation") if quick else ("sample", "observation") * 2):
        spec = core.wide_spec(rng, n_axis=rng.choice([65, 70, 100, 130]), axis=axis, classes=exact, md=bool(i % 2))
        spec["type"] = spell_type(rng)
        written_json_case(ctx, spec, rng.choice(core.ROUTES), tags=("wide:%s" % axis,), path=shared)
        written_h5_case(ctx, spec, rng.choice(core.ROUTES), bool(i % 2), shared, tags=("wide:%s" % axis,),
                        fvs=(None, "2.1.0"))
        ctx.count("wide:%s:%d" % (axis, max(len(spec["obs"]), len(spec["samp"]))))
        # mutations far from the first positions of a wide document
        doc = loads_written(ctx, written_json(spec, "dense"), spec, "wide")
        if doc is None:
            continue
        n, m = doc["shape"]
        for mu in ({"m": "dupId", "ax": "rows" if axis == "observation" else "columns", "i": 0, "j": max(n, m) - 1},
                   {"m": "blankId", "ax": "rows" if axis == "observation" else "columns", "i": max(n, m) - 2},
                   {"m": "appendCoord", "v": [n, m - 1, 1.0]}, {"m": "appendCoord", "v": [n - 1, m, 1.0]},
                   {"m": "appendCoord", "v": [n - 1, m - 1, 1.0]}, {"m": "setShape", "r": n, "c": m - 1},
                   {"m": "dropRecord", "ax": "rows" if axis == "observation" else "columns", "i": max(n, m) - 1}):
            case = {"fmt": "json", "spec": spec, "route": "dense", "muts": [mu]}
            ctx.case({"fmt": "json", "base": base_key(spec), "muts": [mu]}, nontrivial=True)
            json_case(ctx, case, doc, [mu], fvs=(None,))
    big = gen_base_spec(rng, exact, max_n=3, max_m=3, min_n=2, min_m=2)
    big["obs"][0] = "O" + "long-id-" * 40
    big["omd"] = [{"note": ("x" * 1023 + "\n") * 66 if k == 0 else "short"} for k in range(len(big["obs"]))]
    big["smd"] = None
    written_json_case(ctx, big, "dense", tags=("big-text",), path=shared, fvs=(None,))
    written_h5_case(ctx, big, "dense", True, shared, tags=("big-text",), fvs=(None,))
    # in-place updates between exports, and tables derived from a live source
    for k in range(6 if quick else 30):
        spec = gen_base_spec(rng, exact, max_n=4, max_m=4, min_n=2, min_m=2)
        if k % 2 == 0:
            spec["omd"] = core.gen_md(rng, spec["obs"], "text")
            spec["smd"] = core.gen_md(rng, spec["samp"], "num")
        inplace_and_alias_cases(ctx, rng, spec, shared, k)
    less_travelled_cases(ctx, rng, shared)
    # IDs that need escaping, on each axis independently and on both (same shared path)
    n_hard = 36 if quick else 120
    for i in range(n_hard):
        mode = ("samp", "obs", "both")[i % 3]
        spec = hard_id_spec(rng, mode, exact)
        written_json_case(ctx, spec, rng.choice(core.ROUTES), with_exit=(i < 6), tags=("hard-ids:%s" % mode,),
                          path=shared)
        ctx.count("json:hard-ids:%s" % mode)
        if i % 2 == 0 or not quick:
            spec2 = hard_id_spec(rng, mode, exact)
            written_h5_case(ctx, spec2, rng.choice(core.ROUTES), bool(i % 2), shared, with_exit=(i < 3),
                            tags=("hard-ids:%s" % mode,))
            ctx.count("hdf5:hard-ids:%s" % mode)

    # ---- JSON fault enumeration
    n_bases = 5 if quick else 6
    n_double = 450 if quick else None
    bases = []
    for b in range(n_bases):
        dens = [0.6, 1.0, 0.3, 0.0, 0.8][b % 5]
        spec = gen_base_spec(rng, exact, max_n=4, max_m=4, min_n=2 if b % 2 == 0 else 1,
                             min_m=2 if b % 3 != 2 else 1, density=dens)
        text = written_json(spec, "dense")
        try:
            doc = json.loads(text)
        except ValueError as e:
            # the writer's own text is not JSON: a failed case (nothing written by the library may be invalid), not a crash
            ctx.case({"fmt": "json", "base": base_key(spec), "muts": []}, nontrivial=True)
            ctx.fail({"fmt": "json", "spec": spec, "route": "dense", "muts": []}, "written_valid",
                     ("json", "written", "base-document-not-json"), detail={"error": str(e)})
            continue
        bases.append((spec, doc))
        singles = json_mutations(doc)
        for mu in singles:
            case = {"fmt": "json", "spec": spec, "route": "dense", "muts": [mu]}
            ctx.case({"fmt": "json", "base": base_key(spec), "muts": [mu]}, nontrivial=True)
            some = JSON_FVS if (b == 0 or not quick) else (None, rng.choice(JSON_FVS[1:]))
            json_case(ctx, case, doc, [mu], with_exit=(b == 0), fvs=some)
    if n_double is not None:
        for _ in range(n_double):
            b = rng.randrange(len(bases))
            spec, doc = bases[b]
            singles = json_mutations(doc)
            mus = [rng.choice(singles), rng.choice(singles)]
            case = {"fmt": "json", "spec": spec, "route": "dense", "muts": mus}
            ctx.case({"fmt": "json", "base": base_key(spec), "muts": mus}, nontrivial=True)
            json_case(ctx, case, doc, mus, fvs=(rng.choice(JSON_FVS),))
    else:
        budget = 260
        done = False
        for b, (spec, doc) in enumerate(bases[:3]):
            singles = json_mutations(doc)
            bk = base_key(spec)
            for m1 in singles:
                if ctx.time_left(budget) < 0:
                    done = True
                    break
                for m2 in singles:
                    mus = [m1, m2]
                    case = {"fmt": "json", "spec": spec, "route": "dense", "muts": mus}
                    ctx.case({"fmt": "json", "base": bk, "muts": mus}, nontrivial=True)
                    json_case(ctx, case, doc, mus, fvs=(rng.choice(JSON_FVS),))
            if done:
                ctx.notes.append("JSON double enumeration stopped by the time budget in base %d" % b)
                break
        else:
            ctx.notes.append("JSON: every ordered double mutation of 3 bases enumerated")

    # ---- HDF5: written files valid; fault enumeration
    base_path = os.path.join(TMP, F_BASE_H5)
    n_hb = 3 if quick else 4
    n_hdouble = 120 if quick else None
    hbases = []
    for b in range(n_hb):
        while True:
            spec = gen_base_spec(rng, exact, max_n=4, max_m=4, min_n=2, min_m=2, density=[0.6, 1.0, 0.4][b % 3])
            if any(v != 0 for r in spec["rows"] for v in r):
                break
        if b % 2 == 1:
            spec["omd"] = core.gen_md(rng, spec["obs"], "tax")
            spec["smd"] = core.gen_md(rng, spec["samp"], "text")
        bp = os.path.join(TMP, "base_h5_%d_%d.biom" % (PID, b))
        write_h5(spec, "dense", bp)
        tree, _ = observe_h5(bp)
        n, m = len(spec["obs"]), len(spec["samp"])
        hbases.append((spec, bp, tree, n, m))
        for mu in h5_mutations(tree, n, m):
            case = {"fmt": "hdf5", "spec": spec, "route": "dense", "muts": [mu]}
            ctx.case({"fmt": "hdf5", "base": base_key(spec), "muts": [mu]}, nontrivial=True)
            some = H5_FVS if (b == 0 or not quick) else (None,) + tuple(rng.sample(H5_FVS[1:], 2))
            h5_case(ctx, case, bp, tree, [mu], n, m, with_exit=(b == 0), fvs=some)
    try:
        if n_hdouble is not None:
            for _ in range(n_hdouble):
                b = rng.randrange(len(hbases))
                spec, bp, tree, n, m = hbases[b]
                singles = h5_mutations(tree, n, m)
                mus = [rng.choice(singles), rng.choice(singles)]
                case = {"fmt": "hdf5", "spec": spec, "route": "dense", "muts": mus}
                ctx.case({"fmt": "hdf5", "base": base_key(spec), "muts": mus}, nontrivial=True)
                h5_case(ctx, case, bp, tree, mus, n, m, fvs=(rng.choice(H5_FVS),))
        else:
            budget = 420
            spec, bp, tree, n, m = hbases[1]
            singles = h5_mutations(tree, n, m)
            bk = base_key(spec)
            stopped = False
            for m1 in singles:
                if ctx.time_left(budget) < 0:
                    stopped = True
                    break
                for m2 in singles:
                    mus = [m1, m2]
                    case = {"fmt": "hdf5", "spec": spec, "route": "dense", "muts": mus}
                    ctx.case({"fmt": "hdf5", "base": bk, "muts": mus}, nontrivial=True)
                    h5_case(ctx, case, bp, tree, mus, n, m, fvs=(rng.choice(H5_FVS),))
            ctx.notes.append("HDF5 double enumeration over one base: %s" %
                             ("stopped by the time budget" if stopped else "every ordered pair"))
    finally:
        for _, bp, _, _, _ in hbases:
            try:
                os.remove(bp)
            except OSError:
                pass


def replay(ctx, rec):
    os.makedirs(TMP, exist_ok=True)
    case = rec["case"]
    fvs = (case.get("fv"),)
    shared = os.path.join(TMP, F_SHARED)
    if case.get("route") not in core.ROUTES:
        # the table had a history (in-place updates / derived tables); its current content is in the spec
        case = dict(case, route="dense")
    try:
        if case["fmt"] == "cli":
            ctx.notes.append("front-end case: re-run `biom %s %s` on a %s file written from case['spec']" % (
                case["cli"], " ".join(case["args"]), case["src_fmt"]))
            raise RuntimeError("front-end cases are replayed by hand (see note)")
        if case["fmt"] == "json":
            if "doc" in case:
                json_case(ctx, case, case["doc"], case["muts"], tags=("replay",), fvs=fvs)
            elif not case["muts"]:
                written_json_case(ctx, case["spec"], case.get("route", "dense"), tags=("replay",), path=shared,
                                  creation_date=parse_date(case.get("creation_date")), fvs=fvs,
                                  direct_io=bool(case.get("direct_io")))
            else:
                doc = json.loads(written_json(case["spec"], case.get("route", "dense")))
                json_case(ctx, case, doc, case["muts"], tags=("replay",), fvs=fvs)
        else:
            if not case["muts"]:
                # a written file: precede it with a JSON file on the same path, as the run does
                written_json_case(ctx, case["spec"], case.get("route", "dense"), tags=("replay",), path=shared)
                written_h5_case(ctx, case["spec"], case.get("route", "dense"), case.get("compress", True), shared,
                                tags=("replay",), creation_date=parse_date(case.get("creation_date")), fvs=fvs,
                                via=case.get("via", "to_hdf5"), format_fs=case.get("format_fs"))
            else:
                bp = os.path.join(TMP, F_BASE_H5)
                write_h5(case["spec"], case.get("route", "dense"), bp, compress=case.get("compress", True))
                tree, _ = observe_h5(bp)
                h5_case(ctx, case, bp, tree, case["muts"], len(case["spec"]["obs"]), len(case["spec"]["samp"]),
                        tags=("replay",), fvs=fvs)
    finally:
        for fn in (F_CASE, F_CASE_H5, F_BASE_H5, F_SHARED):
            try:
                os.remove(os.path.join(TMP, fn))
            except OSError:
                pass
