"""C14 — subsetting while reading equals reading everything and then filtering.

Files are written by the real library (HDF5 with h5py, JSON with ``to_json``) under /tmp/c14/ and
removed immediately.  For every file: the whole file is loaded with the real reader (``full``), then
every request (IDs in any order, both axes) goes through the real subset readers

  h5       Table.from_hdf5(f, ids=, axis=)
  h5nomd   Table.from_hdf5(f, ids=, axis=, subset_with_metadata=False)
  parseh5  parse_biom_table(h5 handle, ids=, axis=)
  cmdh5    _subset_table(path, None, axis, ids)            (and the click sub-command on some)
  jsonparse parse_biom_table(text | handle | lines, ids=, axis=)
  cmdjson  _subset_table(None, text, axis, ids) joined and loaded with Table.from_json, on the text
           re-serialised several ways (writer's own, compact, json.dumps default, indent=2, tab, …)

Lean evaluates ``holds`` on (full, request, real result), runs the model (on the raw HDF5 datasets /
the JSON document) and compares.  The raw-text functions (``direct_parse_key``, ``direct_slice_data``,
the stitching) are additionally compared character by character with their Lean transcriptions.
"""
import io
import json
import os
import shutil

from . import core

TMP = "/tmp/c14/run-%d" % os.getpid()
TOP_KEYS = ["id", "format", "format_url", "type", "generated_by", "date", "matrix_type",
            "matrix_element_type", "shape", "data", "rows", "columns"]
SERS = {
    "writer": None,
    "compact": dict(separators=(",", ":")),
    "default": dict(),
    "indent2": dict(indent=2),
    "tab-noascii": dict(indent="\t", ensure_ascii=False),
    "indent1": dict(indent=1),
    # the streamed form Table.to_json(generated_by, direct_io=handle): ANOTHER top-level key order
    # (id, format, format_url, generated_by, date, matrix_element_type, shape, type, matrix_type, data, rows, columns)
    "direct_io": None,
    "dio-compact": dict(separators=(",", ":")),
    "dio-default": dict(),
    "dio-indent2": dict(indent=2),
    # alphabetical key order (json.dumps(sort_keys=True)); records' keys are sorted too
    "sorted": dict(sort_keys=True),
    "sorted-indent2": dict(sort_keys=True, indent=2),
    "sorted-compact": dict(sort_keys=True, separators=(",", ":")),
}
MAIN_SERS = ["writer", "compact", "default", "indent2"]
DIO_SERS = ["direct_io", "dio-compact", "dio-default", "dio-indent2"]
SORTED_SERS = ["sorted", "sorted-indent2", "sorted-compact"]
EXTRA_SERS = DIO_SERS[1:] + SORTED_SERS + ["tab-noascii", "indent1"]
SORTED_ORDER = sorted(TOP_KEYS)

T_QUOTE = "slicer:odd-quote-or-unbalanced-bracket-in-string"
T_MDKEY = "slicer:mdkey-columns"
T_HEADER = "slicer:header-comma-brace"


# ----------------------------------------------------------------------------- input features
def scanner_confused(s):
    """would direct_parse_key's bracket/quote stack be left changed by this string's JSON text?
    (decided from the string alone: odd number of '"', or brackets that do not nest)"""
    for enc in (json.dumps(s), json.dumps(s, ensure_ascii=False)):
        stack = ["["]
        for ch in enc:
            if ch == '"':
                if stack[-1] == '"':
                    stack.pop()
                else:
                    stack.append(ch)
            elif ch in "]}":
                stack.pop()
                if not stack:
                    return True
            elif ch in "[{":
                stack.append(ch)
        if stack != ["["]:
            return True
    return False


def strings_of(v):
    if isinstance(v, str):
        yield v
    elif isinstance(v, dict):
        for k, x in v.items():
            yield str(k)
            yield from strings_of(x)
    elif isinstance(v, (list, tuple)):
        for x in v:
            yield from strings_of(x)


def keys_of(v):
    if isinstance(v, dict):
        for k, x in v.items():
            yield str(k)
            yield from keys_of(x)
    elif isinstance(v, (list, tuple)):
        for x in v:
            yield from keys_of(x)


def slicer_tags(spec, gen, ser="writer"):
    """known-finding tags derived from the INPUT only (the table and the header strings; the recorded findings are
    about the key orders the library writes, so the serialisation plays no part)"""
    tags = []
    strs = list(spec["obs"]) + list(spec["samp"])
    for md in (spec.get("omd"), spec.get("smd")):
        if md:
            for e in md:
                strs.extend(strings_of(e))
    if any(scanner_confused(s) for s in strs):
        tags.append(T_QUOTE)
    if spec.get("omd") and any(k == "columns" for e in spec["omd"] for k in keys_of(e)):
        tags.append(T_MDKEY)
    header = [str(spec.get("table_id")), gen, spec.get("type") or ""]
    if any(c in h for h in header for c in ",{}"):
        tags.append(T_HEADER)
    return tags


# ----------------------------------------------------------------------------- real code
def res_of(f):
    try:
        t = f()
    except Exception as e:  # noqa
        return {"error": core.err_name(e)}, None
    o = core.table_obs(t)
    if o["shape"] != [o["n_obs"], o["n_samp"]]:
        return {"error": "Other"}, "shape %s disagrees with the ID counts" % o["shape"]
    return {"ok": o}, None


def serialise(fx, ser):
    base = fx.text_dio if (ser == "direct_io" or ser.startswith("dio-")) else fx.text
    if SERS[ser] is None:
        return base
    return json.dumps(json.loads(base), **SERS[ser])


def doc_of(text):
    d = json.loads(text)

    def recs(l):
        return [{"id": r["id"], "md": None if r["metadata"] is None else core.canon_md_entry(r["metadata"])}
                for r in l]
    return {"rows": recs(d["rows"]), "columns": recs(d["columns"]), "shape": d["shape"],
            "data": [[int(r), int(c), core.frac(v)] for r, c, v in d["data"]], "type": d["type"]}


class Fixture:
    """one table written both ways + everything loaded from the whole files"""

    def __init__(self, spec, route, gen, n, poke=None, name=None, group=None, root_spec=None):
        import random
        import h5py
        from biom import Table
        self.spec, self.route, self.gen, self.poke = spec, route, gen, poke
        # several tables in one file: this one in the sub-group `group`; at the root another table
        # (`root_spec`) or nothing but an unrelated dataset
        self.group, self.root_spec = group, root_spec
        os.makedirs(TMP, exist_ok=True)
        self.path = os.path.join(TMP, name or ("t%d.biom" % n))
        t = core.build(spec, route)
        if spec.get("gmd"):
            # group metadata travels in the HDF5 file; the property does not speak about it (and load-then-
            # filter(inplace=False) itself drops it), so it is present but not judged
            t._observation_group_metadata = {"tree": ("newick", "(%s);" % ",".join("o%d" % i for i in range(len(spec["obs"]))))}
            t._sample_group_metadata = {"graph": ("newick", "(a,(b,c));")}
        # the writers see the table in whatever layout earlier reads left behind
        prng = random.Random(poke) if poke is not None else None
        self.poked = core.poke_layout(t, prng, 3) if prng else []
        with h5py.File(self.path, "w") as f:
            if group:
                if root_spec:
                    core.build(root_spec, "dense").to_hdf5(f, "root table")
                else:
                    f.create_dataset("notes", data=[1, 2, 3])
                t.to_hdf5(f.create_group(group), gen)
            else:
                t.to_hdf5(f, gen)
        if prng:
            self.poked += core.poke_layout(t, prng, 3)
        self.text = t.to_json(gen)
        if prng:
            self.poked += core.poke_layout(t, prng, 2)
        buf = io.StringIO()
        t.to_json(gen, direct_io=buf)
        self.text_dio = buf.getvalue()
        self._pf = {}
        with h5py.File(self.path, "r") as f:
            g = f[group] if group else f
            self.full_h5 = Table.from_hdf5(g)
            self.view = self._view(g)
        self.full_h5_obs = core.table_obs(self.full_h5)
        self.full_json_obs = core.table_obs(Table.from_json(json.loads(self.text)))
        self.doc = doc_of(self.text)
        self.tags = slicer_tags(spec, gen)
        d1, d2 = json.loads(self.text), json.loads(self.text_dio)
        d1.pop("date"), d2.pop("date")
        self.dio_same_doc = d1 == d2

    def _view(self, f):
        def grp(ax):
            g = f[ax]
            return {"ids": [x.decode("utf8") if isinstance(x, bytes) else str(x) for x in g["ids"][:]],
                    "md": core.canon_md(self.full_h5.metadata(axis=ax)),
                    "indptr": [int(x) for x in g["matrix/indptr"][:]],
                    "indices": [int(x) for x in g["matrix/indices"][:]],
                    "data": [core.frac(x) for x in g["matrix/data"][:]]}
        return {"observation": grp("observation"), "sample": grp("sample"),
                "shape": [int(x) for x in f.attrs["shape"]], "type": self.full_h5.type}

    def with_parse_fs(self, name):
        """(full obs, file view) when the file is loaded with a custom parser for one category"""
        import copy
        import h5py
        from biom import Table
        if name not in self._pf:
            with h5py.File(self.path, "r") as f:
                full = Table.from_hdf5(f[self.group] if self.group else f, parse_fs=PARSE_FS[name])
            view = copy.deepcopy(self.view)
            for ax in ("observation", "sample"):
                view[ax]["md"] = core.canon_md(full.metadata(axis=ax))
            self._pf[name] = (core.table_obs(full), view)
        return self._pf[name]

    def unchanged(self):
        """the table loaded from the whole file at the start still reads the same"""
        return core.table_obs(self.full_h5) == self.full_h5_obs

    def close(self):
        if os.path.exists(self.path):
            os.remove(self.path)


def _pf_join(row):
    return "|".join(x.decode("utf8") if isinstance(x, bytes) else str(x) for x in row if len(x))


# custom metadata parsers (from_hdf5's parse_fs), by name
PARSE_FS = {"tax-join": {"taxonomy": _pf_join}, "grp-upper": {"grp": lambda x: (x.decode("utf8") if isinstance(x, bytes)
                                                                              else str(x)).upper()}}


def as_container(ids, how):
    import numpy as np
    if how == "tuple":
        return tuple(ids)
    if how == "array":
        return np.array(ids)
    if how == "bytes":
        return [i.encode("utf8") for i in ids]
    if how == "array-wide":
        return np.array(ids, dtype="<U%d" % (max(len(i) for i in ids) + 40))
    if how == "array-object":
        return np.array(ids, dtype=object)
    return list(ids)


def make_call(fx, variant, ids, axis, ser="writer", how="list", form="str", opts=None, handle=None, text=None):
    """the real call as a thunk; `handle` / `text`: an already open HDF5 handle / an existing text object to re-use"""
    import contextlib
    import h5py
    from biom import Table
    from biom.parse import parse_biom_table
    from biom.cli.table_subsetter import _subset_table
    opts = opts or {}
    pf = PARSE_FS[opts["parse_fs"]] if opts.get("parse_fs") else None
    # ONE request object per call, handed to the reader as it is (and inspected afterwards)
    passed = ids if opts.get("same_list") else as_container(ids, how)

    @contextlib.contextmanager
    def opened():
        if handle is not None:
            yield handle
        else:
            with h5py.File(fx.path, "r") as fh:
                yield fh[fx.group] if fx.group else fh
    if variant == "h5":
        def f():
            with opened() as h:
                c = passed
                if opts.get("positional"):
                    return Table.from_hdf5(h, c, axis, pf, True)
                if opts.get("explicit_md"):
                    import numpy as np
                    flag = {"True": True, "1": 1, "np.True_": np.True_}[str(opts["explicit_md"])]
                    return Table.from_hdf5(h, ids=c, axis=axis, parse_fs=pf, subset_with_metadata=flag)
                if pf is not None:
                    return Table.from_hdf5(h, ids=c, axis=axis, parse_fs=pf)
                return Table.from_hdf5(h, ids=c, axis=axis)
    elif variant == "h5nomd":
        def f():
            with opened() as h:
                if opts.get("positional"):
                    return Table.from_hdf5(h, passed, axis, None, False)
                if opts.get("flag"):
                    import numpy as np
                    return Table.from_hdf5(h, ids=passed, axis=axis,
                                           subset_with_metadata={"0": 0, "np.False_": np.False_}[opts["flag"]])
                return Table.from_hdf5(h, ids=passed, axis=axis, subset_with_metadata=False)
    elif variant == "parseh5":
        def f():
            with opened() as h:
                if opts.get("positional"):
                    return parse_biom_table(h, passed, axis)
                return parse_biom_table(h, ids=passed, axis=axis)
    elif variant == "cmdh5":
        def f():
            t, fmt = _subset_table(fx.path, None, axis, passed)
            assert fmt == "hdf5"
            return t
    elif variant == "jsonparse":
        txt = text if text is not None else serialise(fx, ser)

        def f():
            if form == "handle":
                return parse_biom_table(io.StringIO(txt), ids=passed, axis=axis)
            if form == "lines":
                return parse_biom_table(txt.splitlines(True), ids=passed, axis=axis)
            if opts.get("positional"):
                return parse_biom_table(txt, passed, axis, False)
            return parse_biom_table(txt, ids=passed, axis=axis)
    elif variant == "cmdjson":
        txt = text if text is not None else serialise(fx, ser)

        def f():
            gen, fmt = _subset_table(None, txt, axis, passed)
            assert fmt == "json"
            return Table.from_json(json.loads("".join(gen)))
    else:
        raise ValueError(variant)
    call = f
    if opts.get("profile"):
        import biom.err

        def call():
            with biom.err.errstate(empty=opts["profile"]):
                return f()
    call.passed = passed
    return call


def real_result(fx, variant, ids, axis, ser="writer", how="list", form="str", opts=None):
    call = make_call(fx, variant, ids, axis, ser, how, form, opts)
    res, note = res_of(call)
    want = as_container(ids, how)
    if note is None and [str(x) for x in call.passed] != [str(x) for x in want]:
        note = "the reader changed the request object it was given"
    return res, note


IDS_DECOS = ["plain", "columns", "trail", "crlf", "comments", "noeol"]


def expressible(i):
    """can the documented IDs file (first tab-separated field of a line, lines starting with # skipped, the
    line stripped) name this ID?"""
    return i != "" and i == i.lstrip() and not i.startswith("#") and not any(c in i for c in "\t\n\r")


def write_ids_file(path, ids, deco):
    nl = "\r\n" if deco == "crlf" else "\n"
    lines = []
    if deco in ("comments", "columns"):
        lines.append("#SampleID\tBarcode\tDescription")
    for j, i in enumerate(ids):
        if deco == "columns" or i != i.rstrip():       # a trailing blank of the ID survives only before a tab
            lines.append(i + "\tACGT%d\tsome value %d" % (j, j))
        elif deco == "trail":
            lines.append(i + "   ")
        else:
            lines.append(i)
        if deco == "comments":
            lines.append("# a comment naming " + i)
    with open(path, "w", encoding="utf8", newline="") as f:
        f.write(nl.join(lines) + ("" if deco == "noeol" else nl))


def cli_result(fx, kind, ids, axis, n, inj_path=None, deco="columns", ser="writer", in_place=False):
    """the click sub-command itself (never the group: it closes fd 1), output file loaded again"""
    import h5py
    from click.testing import CliRunner
    from biom import Table
    from biom.cli.table_subsetter import subset_table
    idf = os.path.join(TMP, "ids%d.txt" % n)
    out = os.path.join(TMP, "out%d.biom" % n)
    inj = inj_path or os.path.join(TMP, "in%d.json" % n)
    long_flags = n % 2 == 1
    src = fx.path
    if in_place:
        # work on a copy of the input and name it as the output too
        out = os.path.join(TMP, "inplace%d.biom" % n)
        if kind == "cmdh5":
            shutil.copyfile(fx.path, out)
            src = out
        else:
            inj = out
    before = open(src, "rb").read() if kind == "cmdh5" else None
    write_ids_file(idf, ids, deco)
    try:
        if kind == "cmdh5":
            args = ["--input-hdf5-fp" if long_flags else "-i", src]
        else:
            with open(inj, "w", encoding="utf8") as f:
                f.write(serialise(fx, ser))
            args = ["--input-json-fp" if long_flags else "-j", inj]
        rest = ["--axis", axis, "--ids", idf, "--output-fp", out] if long_flags else ["-a", axis, "-s", idf, "-o", out]

        def f():
            r = CliRunner().invoke(subset_table, args + rest)
            if r.exception is not None and not isinstance(r.exception, SystemExit):
                raise r.exception
            if r.exit_code != 0:
                raise RuntimeError("exit %s" % r.exit_code)
            if kind == "cmdh5":
                with h5py.File(out, "r") as h:
                    return Table.from_hdf5(h)
            with open(out, encoding="utf8") as h:
                return Table.from_json(json.load(h))
        if kind != "cmdh5":
            before = open(inj, "rb").read()
        res, note = res_of(f)
        now = open(src if kind == "cmdh5" else inj, "rb").read() if os.path.exists(src if kind == "cmdh5" else inj) \
            else None
        if not in_place and now != before:
            note = "the command modified its input file"
        if in_place and "error" in res and now != before:
            note = "a refused in-place request changed the file"
        return res, note
    finally:
        for p in (idf, out, inj):
            if os.path.exists(p):
                os.remove(p)


# ----------------------------------------------------------------------------- one case
def observe_out_of_domain(ctx, fx, variant, ids, axis, ser, cli=False, deco="columns"):
    """alphabetical key order (json.dumps sort_keys) is written by no library function: key order is neither
    separators nor indentation, so these texts are OUTSIDE the property's quantifier.  What the real code does
    there is counted, never judged and never mapped onto a recorded finding."""
    if cli:
        res, _ = cli_result(fx, variant, ids, axis, ctx.evaluations, None, deco, ser)
    else:
        res, _ = real_result(fx, variant, ids, axis, ser)
    if "error" in res:
        what = "error=" + res["error"]
        if variant == "cmdjson" and fx.spec.get("type") is None and res["error"] == "Index":
            what = "IndexError('type': null is the last member)"
    else:
        r = ctx.driver.ask({"op": "subset", "variant": variant, "axis": axis, "ids": list(ids),
                            "full": fx.full_json_obs, "result": res, "doc": fx.doc})
        what = "table-as-expected" if r["holds"] else "table-differs"
        if variant == "cmdjson" and not cli:
            try:
                from biom.cli.table_subsetter import _subset_table
                out = json.loads("".join(_subset_table(None, serialise(fx, ser), axis, list(ids))[0]))
                if fx.spec["samp"] and out.get("id") == fx.spec["samp"][0]:
                    what += ",table-id=first-column-record-id"
            except Exception:  # noqa
                pass
    ctx.count("out-of-domain:sort_keys:%s:%s" % (variant, what))


def check_case(ctx, fx, variant, ids, axis, ser="writer", how="list", form="str", tags=(), cli=False,
               result=None, opts=None, inj_path=None, deco="columns", in_place=False):
    opts = opts or {}
    inp = {"spec": fx.spec, "route": fx.route, "gen": fx.gen, "poke": fx.poke, "variant": variant, "ids": list(ids),
           "axis": axis, "ser": ser, "how": how, "form": form, "cli": cli, "opts": opts,
           "deco": deco if cli else None, "in_place": in_place}
    axis_ids = fx.spec["samp"] if axis == "sample" else fx.spec["obs"]
    known = all(i in axis_ids for i in ids)
    if ser.startswith("sorted"):
        observe_out_of_domain(ctx, fx, variant, ids, axis, ser, cli, deco)
        return None
    ctx.case(inp, nontrivial=len(axis_ids) >= 2)
    if result is None:
        if cli:
            result, note = cli_result(fx, variant, ids, axis, ctx.evaluations, inj_path, deco, ser, in_place)
            ctx.count("cli:ids-file=" + deco)
            if in_place:
                ctx.count("cli:in-place")
        else:
            result, note = real_result(fx, variant, ids, axis, ser, how, form, opts)
    else:
        note = None
    is_json = variant in ("jsonparse", "cmdjson")
    full, view = fx.full_h5_obs, fx.view
    if opts.get("parse_fs") and variant != "h5nomd" and not is_json:
        full, view = fx.with_parse_fs(opts["parse_fs"])
    req = {"op": "subset", "variant": variant, "axis": axis, "ids": list(ids),
           "full": fx.full_json_obs if is_json else full, "result": result}
    if is_json:
        req["doc"] = fx.doc
    else:
        req["file"] = view
    r = ctx.driver.ask(req)
    case = {"input": inp, "request": req}
    tags = list(tags) + [variant, "axis=" + axis, "ser=" + ser] + \
        (slicer_tags(fx.spec, fx.gen, ser) if variant == "cmdjson" else [])
    for k, v in sorted(opts.items()):
        ctx.count("opt:%s=%s" % (k, v))
    if opts.get("profile") == "raise" and "ok" in r["model"] and known and len(set(ids)) == len(ids):
        # an emptied table under errstate(empty='raise'): load-all-then-filter raises there too
        m = r["model"]["ok"]
        if not m["obs"] or not m["samp"]:
            ctx.count("profile=raise:empty-result:" + ("raised" if "error" in result else "returned"))
            if "error" not in result:
                ctx.fail(case, "C14.holds: empty result returned under errstate(empty='raise')", tags)
            elif result["error"] != "TableException":
                ctx.fail(case, "C14.holds: wrong error under errstate(empty='raise'): " + result["error"], tags)
            return r
    ctx.count("variant=" + variant)
    ctx.count("axis=" + axis)
    if variant == "cmdjson":
        ctx.count("ser=" + ser)
    if not known:
        ctx.count("request=unknown-id:" + ("refused" if "error" in result else "accepted"))
    elif "ok" in result:
        o = result["ok"]
        full = req["full"]
        oth = "obs" if axis == "sample" else "samp"
        ctx.count("other-axis-dropped=%s" % ("0" if len(o[oth]) == len(full[oth]) else ("all" if not o[oth] else "some")))
        ctx.count("kept=%d/%d" % (min(len(ids), 6), min(len(axis_ids), 6)))
    if not r["model_holds"] and known and len(set(ids)) == len(ids):
        # the theorem says this cannot happen for a well-formed file
        ctx.diverge(case, "model result does not satisfy holds (theorem model_holds contradicted)", tags)
    if note:
        ctx.fail(case, "C14.holds: " + note, tags)
    elif not r["holds"]:
        ctx.fail(case, "C14.holds", tags, detail={"clause": r["clause"], "model": r["model"]})
        ctx.count("holds-false:" + str(r["clause"])[:40])
    else:
        if not r["agree"]:
            ctx.diverge(case, "model result differs from the real result", tags, detail={"model": r["model"]})
        if not r["view_agree"]:
            ctx.diverge(case, "model's load-everything differs from the real full load", tags)
    return r


def check_text(ctx, fx, ids, axis, ser):
    """raw-text layer: direct_parse_key on every key, direct_slice_data and the stitched output"""
    from biom.parse import direct_parse_key, direct_slice_data, get_axis_indices
    from biom.cli.table_subsetter import _subset_table
    text = serialise(fx, ser)
    inp = {"spec": fx.spec, "route": fx.route, "gen": fx.gen, "variant": "text", "ids": list(ids),
           "axis": axis, "ser": ser}
    ctx.case(inp, nontrivial=True)
    tags = ["text", "axis=" + axis, "ser=" + ser]

    def wrap(f):
        try:
            return {"ok": f()}
        except Exception as e:  # noqa
            return {"error": core.err_name(e)}
    for key in TOP_KEYS + ["absent_key"]:
        real = wrap(lambda: direct_parse_key(text, key))
        r = ctx.driver.ask({"op": "parsekey", "text": text, "key": key})
        ctx.count("text:parsekey")
        if r["model"] != real:
            ctx.diverge({"input": inp, "key": key}, "direct_parse_key: model text differs", tags,
                        detail={"model": r["model"], "real": real})
    try:
        idxs, axis_md = get_axis_indices(text, list(ids), axis)
    except Exception:  # noqa
        ctx.count("text:get_axis_indices-raised")
        return
    r = ctx.driver.ask({"op": "axisindices", "doc": fx.doc, "ids": list(ids), "axis": axis})
    want_ids = [rec["id"] for rec in json.loads("{%s}" % axis_md)["rows" if axis == "observation" else "columns"]]
    if r["model"] != {"idxs": [int(i) for i in idxs], "ids": want_ids}:
        ctx.diverge({"input": inp}, "get_axis_indices: model differs", tags, detail={"model": r["model"]})
    real_slice = wrap(lambda: direct_slice_data(text, idxs, axis))
    real_out = wrap(lambda: "".join(_subset_table(None, text, axis, list(ids))[0]))
    r = ctx.driver.ask({"op": "slicetext", "text": text, "idxs": [int(i) for i in idxs], "axis": axis,
                        "axis_md": axis_md})
    ctx.count("text:slice+stitch")
    if r["slice"] != real_slice:
        ctx.diverge({"input": inp}, "direct_slice_data: model text differs", tags,
                    detail={"model": r["slice"], "real": real_slice})
    if r["model"] != real_out:
        ctx.diverge({"input": inp}, "_subset_table output text: model differs", tags,
                    detail={"model": r["model"], "real": real_out})


# ----------------------------------------------------------------------------- generators
SAFE_ODD = [x for x in core.ODD_IDS if not scanner_confused(x)]


SAFE_NASTY = [x for x in core.NASTY_TEXTS if not scanner_confused(x)]


def gen_ids(rng, n, prefix):
    if rng.random() < 0.25:
        # texts that trip naive text handling; NFC and NFD spellings of one text as two DISTINCT IDs of the axis
        pool = [prefix + x for x in SAFE_NASTY] + [prefix + x for x in core.twin_ids(rng, 2)] + \
               [prefix + x for x in core.ASCII_IDS[:4]]
        rng.shuffle(pool)
        return pool[:n]
    pool = [prefix + x for x in core.ASCII_IDS] + [prefix + x for x in SAFE_ODD] + \
           [prefix + x for x in ["[b]", "{c}", 'q"q"', "a,b", "k:v", "sp ace ", "ñandú", "\\", "tab-less", "end\n", "ééééééééé", "日本語のサンプル"]]
    rng.shuffle(pool)
    return pool[:n]


def gen_spec(rng, max_n, max_m):
    n = rng.randint(1, max_n)
    m = rng.randint(1, max_m)
    obs = gen_ids(rng, n, "O")
    samp = gen_ids(rng, m, "S")
    if rng.random() < 0.15:
        # the same names on both axes (no prefix: IDs may begin with a blank, '#', '"' or '%')
        names = gen_ids(rng, max(n, m), "")
        obs, samp = names[:n], list(reversed(names))[:m]
    classes = rng.choice([("count",), ("count", "dyadic"), ("neg", "dyadic", "count"), ("tiny", "big", "count"),
                          ("neg", "dyadic"), ("bits", "count"), ("count", "dyadic", "huge-int")])
    if "huge-int" in classes:
        classes = tuple(c for c in classes if c != "huge-int")
        grid = core.gen_grid(rng, n, m, None, classes)
        for r in grid:
            for j in range(m):
                if r[j] and rng.random() < 0.3:
                    r[j] = float(rng.choice([2 ** 24 + 1, 2 ** 31 + 7, 2 ** 53 - 1, -(2 ** 24) - 3, 1 / 3, 0.1, -2 / 7]))
    else:
        grid = core.gen_grid(rng, n, m, None, classes)
    spec = {"obs": obs, "samp": samp, "rows": grid,
            "omd": core.gen_md(rng, obs), "smd": core.gen_md(rng, samp), "type": rng.choice(core.TYPES)}
    if spec["omd"] and rng.random() < 0.3:
        for i, e in enumerate(spec["omd"]):
            e["taxonomy"] = ["k__A", "g__[Rum %d]" % i]
    if spec["omd"] and rng.random() < 0.15 and not scanner_confused(samp[0]) and samp[0] != "columns":
        for i, e in enumerate(spec["omd"]):
            e[samp[0]] = "named like a sample %d" % i
    if spec["smd"] and rng.random() < 0.2:
        for i, e in enumerate(spec["smd"]):
            e["data"] = 'say "hi" [%d]' % i
            e["shape"] = "x:y,z"
    return spec


def plant_cancellations(rng, spec):
    """rewrite some vectors so that, within a chosen group of IDs of the other axis, the entries are non-zero but
    cancel exactly (v, -v; a, b, -(a+b); dyadic values), or are all negative; returns the requests that keep exactly
    such a group (and the group plus one more ID): [(axis, ids)]"""
    rows, obs, samp = spec["rows"], spec["obs"], spec["samp"]
    n, m = len(obs), len(samp)
    reqs = []

    def values(k):
        vs = [rng.choice([1, 2, 3, 5]) / float(2 ** rng.randint(0, 3)) * rng.choice([1, -1]) for _ in range(k - 1)]
        return vs + [-sum(vs)]
    if m >= 2:
        for i in rng.sample(range(n), min(n, rng.randint(1, 2))):
            grp = sorted(rng.sample(range(m), rng.randint(2, min(3, m))))
            kind = rng.choice(["cancel", "cancel", "negative"])
            vals = values(len(grp)) if kind == "cancel" else [-float(rng.randint(1, 4)) for _ in grp]
            for j, v in zip(grp, vals):
                rows[i][j] = v
            if rng.random() < 0.5:
                for j in range(m):
                    if j not in grp:
                        rows[i][j] = 0.0           # nothing of the vector survives outside the group
            ids = [samp[j] for j in grp]
            rng.shuffle(ids)
            reqs.append(("sample", ids))
            rest = [samp[j] for j in range(m) if j not in grp]
            if rest:
                reqs.append(("sample", ids + [rng.choice(rest)]))
    if n >= 2:
        for j in rng.sample(range(m), min(m, rng.randint(1, 2))):
            grp = sorted(rng.sample(range(n), rng.randint(2, min(3, n))))
            kind = rng.choice(["cancel", "cancel", "negative"])
            vals = values(len(grp)) if kind == "cancel" else [-float(rng.randint(1, 4)) for _ in grp]
            for i, v in zip(grp, vals):
                rows[i][j] = v
            ids = [obs[i] for i in grp]
            rng.shuffle(ids)
            reqs.append(("observation", ids))
            rest = [obs[i] for i in range(n) if i not in grp]
            if rest:
                reqs.append(("observation", ids + [rng.choice(rest)]))
    return reqs


def requests_for(rng, axis_ids, quick):
    """every non-empty subset of a small axis (each in a random order), random subsets otherwise"""
    n = len(axis_ids)
    reqs = []
    if n <= (3 if quick else 5):
        for mask in range(1, 2 ** n):
            s = [axis_ids[i] for i in range(n) if mask >> i & 1]
            rng.shuffle(s)
            reqs.append(s)
    else:
        seen = set()
        for _ in range(6 if quick else 24):
            k = rng.randint(1, n)
            s = rng.sample(axis_ids, k)
            if tuple(sorted(s)) not in seen:
                seen.add(tuple(sorted(s)))
                reqs.append(s)
        reqs.append(list(reversed(axis_ids)))
        reqs.append([axis_ids[rng.randrange(n)]])
    return reqs


def unknown_candidates(axis_ids):
    """unknown IDs whose TEXT is close to a stored one: (kind, base stored id, unknown id)"""
    stored = set(axis_ids)
    longest = max(axis_ids, key=len)
    out = []

    def add(kind, base, u):
        if u and u not in stored and (kind, base, u) not in out:
            out.append((kind, base, u))
    for base in dict.fromkeys([longest, axis_ids[0], axis_ids[-1]]):
        add("extend-digit", base, base + "0")
        add("extend-blank", base, base + " ")
        add("extend-letter", base, base + "b")
        add("extend-long", base, base + "_b2" + "x" * len(longest))
        add("prefix", base, base[:-1])
        add("case", base, base.swapcase())
        add("lead-blank", base, " " + base)
        add("nul-tail", base, base + "\x00x")
    add("far", longest, "zz-not-there")
    for u in core.tricky_unknown_ids(axis_ids):
        base = next((i for i in axis_ids if u.startswith(i) or i.startswith(u) or u.strip().lower() == i.lower()),
                    longest)
        add("shared-helper", base, u)
    return out


def unknown_requests(rng, axis_ids, quick=True):
    """each unknown ID alone, and mixed with the known IDs OTHER than the one it resembles (so that a
    reader that truncates / strips / case-folds the request still finds as many IDs as were asked for)"""
    cands = unknown_candidates(axis_ids)
    if quick:
        must = [c for c in cands if c[0] in ("extend-digit", "extend-long")][:2]
        rest = [c for c in cands if c not in must]
        rng.shuffle(rest)
        cands = must + rest[:3]
    reqs = []
    for kind, base, u in cands:
        others = [i for i in axis_ids if i != base]
        forms = [[u]]
        if others:
            mixed = rng.sample(others, rng.randint(1, len(others))) + [u]
            rng.shuffle(mixed)
            forms.append(mixed)
            forms.append(others + [u])
        if quick:
            forms = [forms[0], forms[-1]] if len(forms) > 1 else forms
        for f in forms:
            if f not in [r for _, r in reqs]:
                reqs.append((kind, f))
    return reqs


PROFILES = ["raise", "warn", "call"]


def gen_opts(rng, fx, variant):
    """rarely used arguments and non-default error profiles, for a share of the calls"""
    o = {}
    c = rng.random()
    if c < 0.12:
        o["profile"] = rng.choice(PROFILES)
    elif c < 0.20 and variant in ("h5", "h5nomd", "parseh5", "jsonparse"):
        o["positional"] = True
    elif c < 0.26 and variant == "h5":
        o["explicit_md"] = rng.choice(["True", "1", "np.True_"])
    elif c < 0.26 and variant == "h5nomd":
        o["flag"] = rng.choice(["0", "np.False_"])
    elif c < 0.36 and variant in ("h5", "h5nomd"):
        cats = set(k for md in (fx.spec.get("omd"), fx.spec.get("smd")) if md for e in md for k in e)
        names = [n for n in PARSE_FS if set(PARSE_FS[n]) & cats]
        if names:
            o["parse_fs"] = rng.choice(names)
    return o or None


def handle_sequence(ctx, fx, rng):
    """several subset reads on ONE open handle, in random order, with a refused request in the middle; every
    returned table is observed at once, then changed in place; the same request is then read again"""
    import h5py
    import numpy as np
    from biom.exception import TableException
    plan = []
    for _ in range(rng.randint(3, 5)):
        axis = rng.choice(["sample", "observation"])
        axis_ids = fx.spec["samp"] if axis == "sample" else fx.spec["obs"]
        ids = rng.sample(axis_ids, rng.randint(1, len(axis_ids)))
        plan.append((rng.choice(["h5", "h5nomd", "parseh5", "h5"]), axis, ids))
    axis_ids = fx.spec["samp"]
    plan.insert(rng.randrange(len(plan) + 1), ("h5", "sample", [max(axis_ids, key=len) + "0"] + axis_ids[1:]))
    plan.append(plan[0])                      # asked again after its first answer was changed in place
    out, keep_alive = [], []
    with h5py.File(fx.path, "r") as fh:
        h = fh[fx.group] if fx.group else fh
        for variant, axis, ids in plan:
            try:
                t = make_call(fx, variant, ids, axis, handle=h)()
                res = {"ok": core.table_obs(t)}
            except Exception as e:  # noqa
                t, res = None, {"error": core.err_name(e)}
            out.append((variant, axis, ids, res))
            if t is not None and t.shape[0] and t.shape[1]:
                keep_alive.append(t)
                try:
                    t.transform(lambda v, i, m: v * 3 + 1, axis=rng.choice(["sample", "observation"]), inplace=True)
                    sids = list(t.ids())
                    if len(sids) > 1 and rng.random() < 0.5:
                        t.update_ids({sids[i]: sids[(i + 1) % len(sids)] for i in range(len(sids))}, axis="sample",
                                     inplace=True)         # a rotation: every ID stays in use, on another vector
                    else:
                        t.update_ids({i: "zz" + i for i in sids}, axis="sample", inplace=True)
                    t.add_metadata({i: {"k": "changed"} for i in t.ids(axis="observation")}, axis="observation")
                    md = t.metadata(axis="observation")
                    if md:
                        md[0]["grp"] = "changed"
                except (TableException, ValueError, TypeError):
                    pass
    for variant, axis, ids, res in out:
        check_case(ctx, fx, variant, ids, axis, result=res, tags=["same-handle"])
    ctx.count("sequence=same-handle")
    # one text object, one list object for the request, several calls
    ser = rng.choice(MAIN_SERS)
    text = serialise(fx, ser)
    axis = rng.choice(["sample", "observation"])
    axis_ids = list(fx.spec["samp"] if axis == "sample" else fx.spec["obs"])
    rng.shuffle(axis_ids)
    req = []
    for i in axis_ids[:4]:
        req.append(i)                         # the SAME list object grows between the calls
        for variant in rng.sample(["cmdjson", "jsonparse"], 2):
            res, note = res_of(make_call(fx, variant, req, axis, ser=ser, text=text, opts={"same_list": True}))
            check_case(ctx, fx, variant, list(req), axis, ser=ser, result=res, tags=["same-text-object"])
    other = "observation" if axis == "sample" else "sample"
    oid = (fx.spec["obs"] if axis == "sample" else fx.spec["samp"])[:1]
    res, note = res_of(make_call(fx, "cmdjson", oid, other, ser=ser, text=text))
    check_case(ctx, fx, "cmdjson", oid, other, ser=ser, result=res, tags=["same-text-object"])
    ctx.count("sequence=same-text-object")


def run_fixture(ctx, fx, rng, quick, tags=(), sers=MAIN_SERS, light=False):
    for axis, axis_ids in (("sample", fx.spec["samp"]), ("observation", fx.spec["obs"])):
        reqs = requests_for(rng, axis_ids, quick)
        if light:
            reqs = reqs[:3]
        planted = [ids for a, ids in getattr(fx, "planted", []) if a == axis and ids not in reqs]
        reqs = planted + reqs
        ctx.count("planted-cancellation-requests", len(planted))
        for ids in reqs:
            how = rng.choice(["list", "list", "tuple", "array", "array-wide", "array-object"])
            check_case(ctx, fx, "h5", ids, axis, how=how, tags=tags, opts=gen_opts(rng, fx, "h5"))
            check_case(ctx, fx, "h5nomd", ids, axis, how=rng.choice(["list", "tuple", "bytes", "array-object"]),
                       tags=tags, opts=gen_opts(rng, fx, "h5nomd"))
            hows = ["list", "list", "tuple", "array", "array-object"]
            if rng.random() < 0.4:
                check_case(ctx, fx, "parseh5", ids, axis, how=rng.choice(hows), tags=tags,
                           opts=gen_opts(rng, fx, "parseh5"))
            if rng.random() < 0.4 and not fx.group:
                check_case(ctx, fx, "cmdh5", ids, axis, how=rng.choice(hows), tags=tags,
                           opts=gen_opts(rng, fx, "cmdh5"))
            form = rng.choice(["str", "handle", "lines"])
            check_case(ctx, fx, "jsonparse", ids, axis, ser=rng.choice(sers), form=form, how=rng.choice(hows),
                       tags=tags, opts=gen_opts(rng, fx, "jsonparse") if form == "str" else None)
            for ser in sers:
                check_case(ctx, fx, "cmdjson", ids, axis, ser=ser, how=rng.choice(hows), tags=tags,
                           opts=gen_opts(rng, fx, "cmdjson"))
        for kind, ids in unknown_requests(rng, axis_ids, quick):
            utags = list(tags) + ["unknown-id", "unknown=" + kind]
            ctx.count("unknown-kind=" + kind)
            for variant in ("h5", "h5nomd", "parseh5", "cmdh5"):
                if variant == "cmdh5" and fx.group:
                    continue
                check_case(ctx, fx, variant, ids, axis, how=rng.choice(["list", "tuple", "array"]), tags=utags)
            check_case(ctx, fx, "cmdjson", ids, axis, ser=rng.choice(sers), tags=utags)
            check_case(ctx, fx, "jsonparse", ids, axis, tags=utags)
        # a repeated requested ID: outside the quantifier, only the model agreement is checked
        if axis_ids and rng.random() < 0.5:
            rep = [axis_ids[0], axis_ids[0]] + axis_ids[1:2]
            rng.shuffle(rep)
            for variant in ("h5", "h5nomd", "cmdjson", "jsonparse"):
                check_case(ctx, fx, variant, rep, axis, tags=list(tags) + ["repeated-id"])
            if not fx.tags:
                check_text(ctx, fx, rep, axis, rng.choice(MAIN_SERS + ["direct_io"]))
        # raw-text layer
        if not fx.tags:
            for ser in sers:
                if not ser.startswith("sorted"):
                    check_text(ctx, fx, reqs[rng.randrange(len(reqs))], axis, ser)
    if not light:
        handle_sequence(ctx, fx, rng)
    if not fx.unchanged():
        ctx.diverge({"input": {"spec": fx.spec, "route": fx.route, "gen": fx.gen, "poke": fx.poke}},
                    "the table loaded from the whole file changed while subsets were read", list(tags))


# the repaired defects, original failing inputs first (corpus/probes/p14.py, p14c.py + the two
# slicer repairs of 4e5e66d6)
def fixed_corpus():
    g = [[1, 2, 0], [3, 4.0, 0], [0, 0, 5]]
    s1 = {"obs": ["o1", "o2", "o3"], "samp": ["s1", "s2", "s3"], "rows": g,
          "omd": [{"k": "x"}, {"k": "y"}, {"k": "z"}], "smd": None, "type": None}
    s2 = dict(s1, omd=None)
    out = []
    # f73e60aa: every from_hdf5(ids=...) raised (np.in1d)
    for ids, ax in ((["s1", "s3"], "sample"), (["o2"], "observation")):
        out.append((s1, "h5", ids, ax, "writer"))
        out.append((s1, "parseh5", ids, ax, "writer"))
        out.append((s1, "cmdh5", ids, ax, "writer"))
    # 7b0a08ea: metadata-free variant matched nothing; unknown ids next to known ones were ignored
    for ids, ax in ((["s1", "s3"], "sample"), (["o2"], "observation"), (["s1", "zz"], "sample")):
        out.append((s1, "h5nomd", ids, ax, "writer"))
    # f98f8c0f: sample-axis slicing of JSON with a blank after each comma
    for ser in ("compact", "default", "indent2"):
        for ids, ax in ((["s1", "s3"], "sample"), (["o2", "o3"], "observation")):
            out.append((s2, "cmdjson", ids, ax, ser))
    # 4e5e66d6: no entry at all in the file / no entry survives the slice
    z = {"obs": ["O1", "O2"], "samp": ["S1", "S2", "S3"], "rows": [[0, 0, 0], [0, 0, 0]],
         "omd": None, "smd": None, "type": "OTU table"}
    e = dict(z, rows=[[0, 1, 0], [0, 3, 4.0]])
    for ser in ("writer", "compact", "default", "indent2"):
        out.append((z, "cmdjson", ["S1"], "sample", ser))
        out.append((z, "cmdjson", ["O2"], "observation", ser))
        out.append((e, "cmdjson", ["S1"], "sample", ser))
    return out


# the three recorded findings (known_findings.json F-C14-1/2/3): a small separate stream
def known_stream():
    a = [[1, 2, 0], [0, 3, 4.0]]
    base = {"obs": ["O1", "O2"], "samp": ["S1", "S2", "S3"], "rows": a, "omd": None, "smd": None,
            "type": "OTU table"}
    return [
        (dict(base, obs=["O1", 'O"2']), "x"),
        (dict(base, obs=["O1", "O]2"]), "x"),
        (dict(base, samp=["S1", "S{2", "S3"]), "x"),
        (dict(base, omd=[{"d": 'a"b'}, {"d": "c"}]), "x"),
        (dict(base, omd=[{"columns": "a"}, {"columns": "b"}]), "x"),
        (base, "QIIME 1.9, biom"),
        (base, "a{b"),
        (dict(base, table_id="a,b"), "x"),
    ]


# wide axes: more than 8 vectors on the sliced axis, kept positions spread over the range — the
# slicer's old-index -> new-index lookup must follow the SORTED kept positions, and small-int
# sets only stop iterating in ascending order once a position >= 8 is involved ({1, 8} -> 8, 1)
WIDE_PICKS = [(1, 8), (8, 9), (0, 15), (3, 11, 12), (1, 8, 9), (7, 8), (0, 8), (8,), (2, 9, 10, 15), (8, 1),
              (15, 0, 7), (9, 2), (5, 13, 6), (0, 1, 2, 3, 4, 5, 6, 7, 8), (10, 3, 12, 1)]
WIDE_SERS = ["compact", "default", "indent2"]


def wide_spec(n_obs, n_samp, zeros=False):
    obs = ["o%02d" % i for i in range(n_obs)]
    samp = ["s%02d" % j for j in range(n_samp)]
    rows = [[0.0 if zeros and (i + 2 * j) % 5 == 0 else float(1 + i * n_samp + j) for j in range(n_samp)]
            for i in range(n_obs)]
    return {"obs": obs, "samp": samp, "rows": rows, "omd": [{"k": "vo%d" % i} for i in range(n_obs)],
            "smd": [{"k": "vs%d" % j} for j in range(n_samp)], "type": "OTU table"}


def wide_stream(ctx, rng, n0, quick):
    n = n0
    tags = ["wide-axis"]

    def sweep(fx, axis, picks, sers, symmetric=True):
        axis_ids = fx.spec["samp"] if axis == "sample" else fx.spec["obs"]
        for k, pos in enumerate(picks):
            if max(pos) >= len(axis_ids):
                continue
            ids = [axis_ids[p] for p in pos]
            for ser in sers:
                check_case(ctx, fx, "cmdjson", ids, axis, ser=ser, tags=tags)
            if symmetric:
                check_case(ctx, fx, "jsonparse", ids, axis, ser=WIDE_SERS[k % 3], tags=tags)
                check_case(ctx, fx, "h5", ids, axis, tags=tags)
                check_case(ctx, fx, "h5nomd", ids, axis, tags=tags)
                if k % 4 == 0:
                    check_case(ctx, fx, "cmdh5", ids, axis, tags=tags)
            ctx.count("wide-axis:pick")
    # every ordered pair of positions on an 11-wide axis, both orientations
    for n_obs, n_samp, axis in ((3, 11, "sample"), (11, 3, "observation")):
        n += 1
        fx = Fixture(wide_spec(n_obs, n_samp), "dense", "x", n)
        try:
            pairs = [(a, b) for a in range(11) for b in range(11) if a != b]
            if not quick:
                rng.shuffle(pairs)
            # the three serialisations on every pair; the other readers on the pairs given ascending
            sweep(fx, axis, [p for p in pairs if p[0] > p[1]], WIDE_SERS if not quick else WIDE_SERS[n % 3:][:1],
                  symmetric=False)
            sweep(fx, axis, [p for p in pairs if p[0] < p[1]], WIDE_SERS, symmetric=True)
            for ser in WIDE_SERS:
                check_text(ctx, fx, [fx.spec["samp" if axis == "sample" else "obs"][p] for p in (1, 8)], axis, ser)
        finally:
            fx.close()
    # 16 x 16 with zero cells, 9 x 12: spread picks on both axes
    for n_obs, n_samp, zeros in ((16, 16, True), (9, 12, False), (12, 9, True)):
        n += 1
        fx = Fixture(wide_spec(n_obs, n_samp, zeros), ["csr", "csc", "coo"][n % 3], "x", n)
        try:
            for axis in ("sample", "observation"):
                width = n_samp if axis == "sample" else n_obs
                extra = [tuple(rng.sample(range(width), rng.choice([2, 2, 3, 4]))) for _ in range(4 if quick else 30)]
                extra = [e for e in extra if max(e) >= 8]
                sweep(fx, axis, WIDE_PICKS + extra, WIDE_SERS)
                check_text(ctx, fx, [(fx.spec["samp"] if axis == "sample" else fx.spec["obs"])[p] for p in (0, 8)],
                           axis, "default")
        finally:
            fx.close()
    ctx.count("stream=wide-axis")
    return n


def large_stream(ctx, rng, n0, quick):
    """size thresholds: >= 64 IDs on the sliced axis, requests in non-axis order; a JSON text >= 64 KiB"""
    n = n0
    tags = ["large"]
    for axis in ("sample", "observation"):
        n += 1
        spec = core.wide_spec(rng, axis=axis, md=True)
        fx = Fixture(spec, rng.choice(["csr", "csc", "coo"]), "x", n, poke=rng.randrange(10 ** 6))
        try:
            axis_ids = spec["samp"] if axis == "sample" else spec["obs"]
            k = len(axis_ids)
            reqs = [rng.sample(axis_ids, rng.randint(5, 12)), list(reversed(axis_ids))[1:],
                    [axis_ids[k - 1], axis_ids[63], axis_ids[0], axis_ids[64 % k]], [axis_ids[k - 1]]]
            for j, ids in enumerate(reqs):
                for variant in ("h5", "h5nomd", "parseh5", "cmdh5", "jsonparse"):
                    check_case(ctx, fx, variant, ids, axis, tags=tags, how=["list", "array"][j % 2])
                check_case(ctx, fx, "cmdjson", ids, axis, ser=WIDE_SERS[j % 3], tags=tags)
            other = "observation" if axis == "sample" else "sample"
            oid = (spec["obs"] if axis == "sample" else spec["samp"])[-1:]
            for variant in ("h5", "h5nomd", "jsonparse", "cmdjson"):
                check_case(ctx, fx, variant, oid, other, tags=tags)
            for u in (axis_ids[6] + "4", axis_ids[10][:-1] + "x", axis_ids[k - 1] + "0"):
                if u not in axis_ids:
                    for variant in ("h5", "h5nomd", "cmdh5", "cmdjson"):
                        check_case(ctx, fx, variant, [u] + axis_ids[:6], axis, tags=tags + ["unknown-id"])
            ctx.count("large:axis>=64")
        finally:
            fx.close()
    # an axis above 512 IDs
    axis = rng.choice(["sample", "observation"])
    n += 1
    spec = core.wide_spec(rng, n_axis=rng.choice([513, 520, 600]), other=2, axis=axis, md=False)
    fx = Fixture(spec, "csr" if axis == "observation" else "csc", "x", n)
    try:
        axis_ids = spec["samp"] if axis == "sample" else spec["obs"]
        k = len(axis_ids)
        for ids in ([axis_ids[k - 1], axis_ids[512], axis_ids[0], axis_ids[511], axis_ids[256]],
                    rng.sample(axis_ids, 9), [axis_ids[512] + "0", axis_ids[3]]):
            for variant in ("h5", "h5nomd", "cmdh5", "jsonparse"):
                check_case(ctx, fx, variant, ids, axis, tags=tags)
            check_case(ctx, fx, "cmdjson", ids, axis, ser=rng.choice(WIDE_SERS + ["direct_io"]), tags=tags)
        ctx.count("large:axis>512")
    finally:
        fx.close()
    # a text of at least 64 KiB (dense 90 x 62)
    n += 1
    spec = {"obs": ["o%03d" % i for i in range(90)], "samp": ["s%03d" % j for j in range(62)],
            "rows": [[float(1 + (i * 7 + j * 13) % 97) for j in range(62)] for i in range(90)],
            "omd": None, "smd": None, "type": None}
    fx = Fixture(spec, "dense", "x", n)
    try:
        size = len(fx.text)
        ctx.count("large:text>=64KiB" if size >= 65536 else "large:text<64KiB(%d)" % size)
        picks = [("sample", [spec["samp"][j] for j in (61, 8, 1, 33)]),
                 ("observation", [spec["obs"][i] for i in (89, 64, 0, 9, 8)])]
        for j, (axis, ids) in enumerate(picks):
            check_case(ctx, fx, "cmdjson", ids, axis, ser=WIDE_SERS[j], tags=tags)
            check_case(ctx, fx, "jsonparse", ids, axis, tags=tags)
            check_case(ctx, fx, "h5", ids, axis, tags=tags)
        check_text(ctx, fx, picks[0][1], "sample", "writer")
    finally:
        fx.close()
    return n


def state_stream(ctx, rng, n0):
    """process-level state and path re-use: unusual optional arguments first, then the default calls must be
    unaffected; one path carrying different tables and different formats one after the other"""
    import h5py
    from biom import Table
    n = n0 + 1
    a = {"obs": ["O1", "O2", "O3"], "samp": ["S1", "S2", "S3", "S4"],
         "rows": [[1, 0, 2, 0], [0, 0, 0, 5], [3, 4, 0, 0]],
         "omd": [{"taxonomy": ["k__A", "p__x"], "grp": "a"}, {"taxonomy": ["k__B", "p__y"], "grp": "b"},
                 {"taxonomy": ["k__C", "p__z"], "grp": "c"}],
         "smd": [{"grp": "u"}, {"grp": "v"}, {"grp": "w"}, {"grp": "x"}], "type": "OTU table", "gmd": True}
    b = {"obs": ["O3", "O1", "P9"], "samp": ["S4", "S1"], "rows": [[7, 0], [0, 8], [9, 9]],
         "omd": None, "smd": [{"grp": "q"}, {"grp": "r"}], "type": None}
    tags = ["process-state"]
    fx = Fixture(a, "csc", "x", n, name="reuse.biom")
    try:
        def snap():
            out = []
            for variant, axis, ids in (("h5", "sample", ["S3", "S1"]), ("h5", "observation", ["O2"]),
                                       ("parseh5", "observation", ["O3", "O1"]), ("cmdh5", "sample", ["S4"])):
                out.append(real_result(fx, variant, ids, axis)[0])
            return out
        before = snap()
        # unusual calls: custom parsers (checked against the full load made with the same parsers)
        for name in PARSE_FS:
            for axis, ids in (("observation", ["O3", "O1"]), ("sample", ["S2", "S4"])):
                check_case(ctx, fx, "h5", ids, axis, opts={"parse_fs": name}, tags=tags)
                check_case(ctx, fx, "h5nomd", ids, axis, opts={"parse_fs": name}, tags=tags)
        with h5py.File(fx.path, "r") as h:
            full_nomd = core.table_obs(Table.from_hdf5(h, subset_with_metadata=False))
        if full_nomd != fx.full_h5_obs:
            ctx.diverge({"input": {"spec": a}}, "from_hdf5(subset_with_metadata=False) without ids is not the full table",
                        tags)
        after = snap()
        if before != after:
            ctx.diverge({"input": {"spec": a}}, "default subset reads changed after calls with custom parse_fs", tags,
                        detail={"before": before, "after": after})
        for axis, ids in (("observation", ["O3", "O1"]), ("sample", ["S2", "S4"]), ("sample", ["S3"])):
            for variant in ("h5", "parseh5", "cmdh5", "h5nomd"):
                check_case(ctx, fx, variant, ids, axis, tags=tags)
        check_case(ctx, fx, "cmdh5", ["S2", "S4"], "sample", cli=True, tags=tags + ["cli"])
    finally:
        fx.close()
    # the same path now holds another table: IDs partly shared, other order, other shape
    n += 1
    fx2 = Fixture(b, "csr", "x", n, name="reuse.biom")
    try:
        for axis, ids in (("observation", ["O3", "O1"]), ("sample", ["S4"]), ("sample", ["S1", "S4"]),
                          ("observation", ["P9"])):
            for variant in ("h5", "parseh5", "cmdh5", "h5nomd"):
                check_case(ctx, fx2, variant, ids, axis, tags=tags + ["path-reuse"])
        check_case(ctx, fx2, "cmdh5", ["S1"], "sample", cli=True, tags=tags + ["path-reuse", "cli"])
        check_case(ctx, fx2, "cmdh5", ["S2", "S1"], "sample", tags=tags + ["path-reuse", "unknown-id"])
        # ... and then a JSON document at a path that carried HDF5 a moment ago
        jpath = os.path.join(TMP, "reuse2.biom")
        fx3 = Fixture(a, "dense", "x", n + 1, name="reuse2.biom")
        fx3.close()
        check_case(ctx, fx2, "cmdjson", ["S1"], "sample", cli=True, inj_path=jpath, tags=tags + ["path-reuse", "cli"])
        check_case(ctx, fx2, "cmdjson", ["P9", "O3"], "observation", cli=True, inj_path=jpath,
                   tags=tags + ["path-reuse", "cli"])
    finally:
        fx2.close()
    ctx.count("stream=process-state")
    return n + 1


def ser_stream(ctx, rng, n0):
    """every serialisation the library itself produces (string form, streamed direct_io form) and re-serialisations
    with every top-level key order (as written, direct_io order, alphabetical), both axes, through the slicer"""
    n = n0
    base = {"obs": ["O1", "O2", "O3"], "samp": ["S1", "S2", "S3", "S4"],
            "rows": [[1, 0, 2, 0], [0, 0, 0, 5], [3, 4, 0, 0]],
            "omd": [{"taxonomy": ["k__A", "p__x"], "grp": "a"}, {"taxonomy": ["k__B", "p__y"], "grp": "b"},
                    {"taxonomy": ["k__C", "p__z"], "grp": "c"}],
            "smd": [{"depth": 1}, {"depth": 2}, {"depth": 3}, {"depth": 4}], "type": "OTU table"}
    for spec, gen in ((base, "BIOM-Format 2.1"), (dict(base, omd=None, smd=None, type="Pathway table"), "x"),
                      (dict(base, type=None), "x")):
        n += 1
        fx = Fixture(spec, ["dense", "csc", "csr"][n % 3], gen, n)
        try:
            if not fx.dio_same_doc:
                ctx.diverge({"input": {"spec": spec}}, "to_json string form and direct_io form describe different documents",
                            ["serialisations"])
            for ser in MAIN_SERS + DIO_SERS + SORTED_SERS + ["tab-noascii", "indent1"]:
                for axis, ids in (("sample", ["S3", "S1"]), ("observation", ["O2"]), ("sample", ["S2"]),
                                  ("observation", ["O3", "O1", "O2"])):
                    check_case(ctx, fx, "cmdjson", ids, axis, ser=ser, tags=["serialisations"])
                    if ser in ("direct_io", "dio-indent2", "sorted"):
                        check_case(ctx, fx, "jsonparse", ids, axis, ser=ser, tags=["serialisations"])
                if not ser.startswith("sorted"):
                    check_text(ctx, fx, ["S4", "S2"], "sample", ser)
            for ser in ("direct_io", "dio-default", "sorted"):
                check_case(ctx, fx, "cmdjson", ["O3"], "observation", ser=ser, cli=True, deco="plain",
                           tags=["serialisations", "cli"])
        finally:
            fx.close()
    ctx.count("stream=serialisations")
    return n


def emptied_stream(ctx, rng, n0):
    """deterministic, every run: a block-diagonal grid (plus vectors whose only entry sits in one ID of the other
    axis), so that requests are GUARANTEED to leave other-axis vectors all-zero; without metadata, with metadata
    on exactly one axis, on both; both axes; every reader and the click command on HDF5 and JSON.  The documented
    variants drop those vectors, the metadata-free variant and the JSON slicer keep them."""
    n = n0
    obs = ["O1", "O2", "O3", "O4", "O5"]
    samp = ["S1", "S2", "S3", "S4", "S5"]
    rows = [[1, 2, 0, 0, 0], [3, 0, 0, 0, 0], [0, 0, 4, 5, 0], [0, 0, 0, 6, 0], [0, 0, 0, 0, 7]]
    omd = [{"k": "vo%d" % i} for i in range(5)]
    smd = [{"k": "vs%d" % j} for j in range(5)]
    reqs = [("sample", ["S2", "S1"]), ("sample", ["S3"]), ("sample", ["S5"]), ("sample", ["S4", "S1"]),
            ("sample", ["S2"]), ("observation", ["O2", "O1"]), ("observation", ["O5"]), ("observation", ["O3"]),
            ("observation", ["O4", "O2"])]
    for j, (o, sm, ttype) in enumerate(((None, None, "OTU table"), (None, None, None), (omd, None, "OTU table"),
                                        (None, smd, None), (omd, smd, "Pathway table"))):
        n += 1
        spec = {"obs": obs, "samp": samp, "rows": [[float(v) for v in r] for r in rows], "omd": o, "smd": sm,
                "type": ttype}
        fx = Fixture(spec, ["dense", "csc", "csr", "coo", "lil"][j], "x", n)
        tags = ["emptied-vectors", "md=%s%s" % ("o" if o else "-", "s" if sm else "-")]
        try:
            for k, (axis, ids) in enumerate(reqs):
                for variant in ("h5", "h5nomd", "parseh5", "cmdh5", "jsonparse"):
                    check_case(ctx, fx, variant, ids, axis, tags=tags)
                check_case(ctx, fx, "cmdjson", ids, axis, ser=(MAIN_SERS + ["direct_io"])[(j + k) % 5], tags=tags)
                if (j + k) % 2 == 0:
                    check_case(ctx, fx, "cmdh5", ids, axis, cli=True, deco=IDS_DECOS[k % 6], tags=tags + ["cli"])
                    check_case(ctx, fx, "cmdjson", ids, axis, cli=True, deco=IDS_DECOS[(k + 1) % 6],
                               ser=(MAIN_SERS + ["direct_io"])[k % 5], tags=tags + ["cli"])
        finally:
            fx.close()
    ctx.count("stream=emptied-vectors")
    return n


def cli_stream(ctx, rng, n0):
    """the real click sub-command with an IDs FILE: IDs with inner blanks (one a prefix of another up to a blank),
    extra tab-separated columns, trailing blanks, CRLF, comment lines, no final newline; HDF5 and JSON input, both axes"""
    n = n0 + 1
    spec = {"obs": ["gut", "gut 2", "skin day 3", "skin", "OTU 2", "OTU"],
            "samp": ["s a", "s", "s a b", "day 1 ", "x", "day 1"],
            "rows": [[float(1 + i * 6 + j) if (i + j) % 4 else 0.0 for j in range(6)] for i in range(6)],
            "omd": [{"k": "vo%d" % i} for i in range(6)], "smd": [{"k": "vs%d" % j} for j in range(6)],
            "type": "OTU table"}
    fx = Fixture(spec, "csr", "x", n)
    reqs = {"observation": [["gut 2"], ["skin day 3", "gut"], ["gut 2", "gut", "OTU 2"], ["OTU"], ["skin", "skin day 3"],
                            ["OTU 2", "skin day 3", "gut 2"]],
            "sample": [["s a"], ["s a b", "s"], ["day 1 ", "x"], ["s"], ["day 1"], ["day 1", "day 1 ", "s a"]]}
    unknown = {"observation": [["gut 3"], ["gut 2", "skin day"], ["OTU 2 "]], "sample": [["s b"], ["s a", "day 2"]]}
    try:
        k = 0
        for axis in ("observation", "sample"):
            for ids in reqs[axis]:
                for kind in ("cmdh5", "cmdjson"):
                    for _ in range(2):
                        deco = IDS_DECOS[k % len(IDS_DECOS)]
                        ser = (MAIN_SERS + ["direct_io"])[k % 5]
                        k += 1
                        check_case(ctx, fx, kind, ids, axis, ser=ser, cli=True, deco=deco, tags=["cli", "ids-file"])
            for ids in unknown[axis]:
                for kind in ("cmdh5", "cmdjson"):
                    deco = IDS_DECOS[k % len(IDS_DECOS)]
                    k += 1
                    check_case(ctx, fx, kind, ids, axis, cli=True, deco=deco, tags=["cli", "ids-file", "unknown-id"])
                    check_case(ctx, fx, kind, ids, axis, cli=True, deco=deco, in_place=True,
                               tags=["cli", "in-place", "unknown-id"])
            # -o names the input: the table is sliced in place
            for ids in reqs[axis][:3]:
                for kind in ("cmdh5", "cmdjson"):
                    check_case(ctx, fx, kind, ids, axis, ser=(MAIN_SERS + ["direct_io"])[k % 5], cli=True,
                               deco=IDS_DECOS[k % len(IDS_DECOS)], in_place=True, tags=["cli", "in-place"])
                    k += 1
            # an ID named twice in the file (two lists concatenated): outside the quantifier, model agreement only
            rep = reqs[axis][1] + reqs[axis][1][:1]
            for kind in ("cmdh5", "cmdjson"):
                check_case(ctx, fx, kind, rep, axis, cli=True, deco="plain", tags=["cli", "repeated-id"])
            check_text(ctx, fx, rep, axis, "writer")
            check_text(ctx, fx, rep, axis, "dio-indent2")
    finally:
        fx.close()
    ctx.count("stream=cli-ids-file")
    return n


def group_stream(ctx, rng, n0):
    """several tables in one HDF5 file: the table under test in a sub-group, at the root another table (IDs partly
    shared, other shape) or no table at all; the readers are handed the GROUP"""
    n = n0
    a = {"obs": ["O1", "O2", "O3"], "samp": ["S1", "S2", "S3", "S4"],
         "rows": [[1, 0, 2, 0], [0, 0, 0, 5], [3, -3, 0, 0]],
         "omd": [{"grp": "a"}, {"grp": "b"}, {"grp": "c"}], "smd": None, "type": "OTU table"}
    root = {"obs": ["O3", "X1"], "samp": ["S4", "S1", "Z"], "rows": [[7, 0, 1], [0, 8, 2]],
            "omd": None, "smd": [{"grp": "q"}, {"grp": "r"}, {"grp": "s"}], "type": None}
    for root_spec in (root, None):
        n += 1
        fx = Fixture(a, "csr", "x", n, group="second/study", root_spec=root_spec)
        try:
            for axis, reqs in (("sample", [["S4", "S1"], ["S2"], ["S3", "S2", "S1"]]),
                               ("observation", [["O3"], ["O2", "O1"], ["O3", "O1"]])):
                for ids in reqs:
                    for variant in ("h5", "h5nomd", "parseh5"):
                        check_case(ctx, fx, variant, ids, axis, how=rng.choice(["list", "tuple", "array"]),
                                   tags=["sub-group"])
                for u in (["Z"], ["X1", "O1"], ["S1", "S40"]):
                    for variant in ("h5", "h5nomd", "parseh5"):
                        check_case(ctx, fx, variant, u, axis, tags=["sub-group", "unknown-id"])
            handle_sequence(ctx, fx, rng)
        finally:
            fx.close()
    ctx.count("stream=sub-group")
    return n


def run(ctx):
    quick = ctx.quick()
    rng = ctx.rng
    ctx.rule = ("tables from gen_spec-like specs (1..N x 1..M, all-zero rows/columns, odd/non-ASCII IDs, metadata, "
                "several sparse layouts) are written by the real library to HDF5 and JSON; every non-empty subset of a "
                "small axis / random subsets of a larger one, IDs in random order, both axes, go through "
                "from_hdf5(ids), from_hdf5(ids, subset_with_metadata=False), parse_table(ids) on HDF5 and JSON, "
                "_subset_table on HDF5 and on JSON text re-serialised (writer, compact, default, indent=2, tab, indent=1); "
                "plus unknown-ID and repeated-ID requests and the click sub-command; plus tables with 9-16 vectors on the sliced "
                "axis: every ordered pair of positions of an 11-wide axis (both orientations) and spread pairs/triples "
                "((1,8), (8,9), (0,15), (3,11,12), ...) on 16x16, 9x12, 12x9, three serialisations. non-trivial = the subset axis has "
                ">= 2 IDs; distinct = distinct (table, variant, request, serialisation)")
    ctx.trusted = ["h5py / json are used to present the file to the model (raw datasets, parsed document)",
                   "metadata of the file view is taken from the real full load (axis_load's parsing is C01's subject)"]
    if os.path.isdir(TMP):
        shutil.rmtree(TMP, ignore_errors=True)
    os.makedirs(TMP, exist_ok=True)
    n = 0
    try:
        # 1. fixed corpus (sharded runs: first worker only)
        first = getattr(ctx, "worker", (0, 1))[0] == 0
        cache = {}
        for spec, variant, ids, axis, ser in (fixed_corpus() if first else []):
            key = json.dumps(spec, sort_keys=True)
            if key not in cache:
                n += 1
                cache[key] = Fixture(spec, "dense", "x", n)
            check_case(ctx, cache[key], variant, ids, axis, ser=ser, tags=["fixed-corpus"])
            ctx.count("fixed-corpus")
        for fx in cache.values():
            for axis in ("sample", "observation"):
                for ser in MAIN_SERS:
                    check_text(ctx, fx, [fx.spec["samp" if axis == "sample" else "obs"][0]], axis, ser)
            fx.close()
        # 2. recorded findings: each class at least once per run
        for spec, gen in (known_stream() if first else []):
            n += 1
            fx = Fixture(spec, "dense", gen, n)
            for axis, ids in (("sample", ["S1", "S3"] if "S3" in spec["samp"] else spec["samp"][:1]),
                              ("observation", spec["obs"][1:])):
                for variant in ("h5", "h5nomd", "jsonparse"):
                    check_case(ctx, fx, variant, ids, axis, tags=["special-strings"])
                for ser in ("writer", "default", "indent2"):
                    check_case(ctx, fx, "cmdjson", ids, axis, ser=ser, tags=["special-strings"])
            ctx.count("stream=recorded-findings")
            fx.close()
        # 2a. process-level state / path re-use: early in the run, before the default calls of the main stream
        if first:
            n = state_stream(ctx, rng, n)
        # 2a'. every serialisation / key order; the command line with an IDs file; tables in sub-groups
        if first:                      # deterministic streams: once per run, not once per worker
            n = group_stream(ctx, rng, n)
            n = ser_stream(ctx, rng, n)
            n = cli_stream(ctx, rng, n)
            n = emptied_stream(ctx, rng, n)
        # 2b. wide axes (9-16 vectors), kept positions spread over the range
        if first or not quick:
            n = wide_stream(ctx, rng, n, quick)
        # 2c. sizes: >= 64 IDs on an axis, a text >= 64 KiB
        if first or not quick:
            n = large_stream(ctx, rng, n, quick)
        # 3. main stream
        n_tables = 28 if quick else max(24, 300 // getattr(ctx, "worker", (0, 1))[1])
        routes = ["dense", "csr", "csc", "coo", "csr_unsorted", "csr_zeros", "sort_roundtrip", "lil"]
        gens = ["BIOM-Format 2.1", "x", "généré par é"]
        for k in range(n_tables):
            n += 1
            big = (k % 5 == 4)
            spec = gen_spec(rng, 8 if big else 4, 8 if big else 4)
            planted = plant_cancellations(rng, spec) if rng.random() < 0.45 else []
            if k % 5 == 1:
                spec["gmd"] = True
            grouped = k % 6 == 2
            fx = Fixture(spec, routes[k % len(routes)], rng.choice(gens), n,
                         poke=rng.randrange(10 ** 6) if k % 3 else None, group="tables/t%d" % k if grouped else None,
                         root_spec=gen_spec(rng, 3, 3) if grouped and k % 12 == 2 else None)
            fx.planted = planted
            ctx.count("stream=main")
            ctx.count("poked=%s" % ("yes" if fx.poked else "no"))
            extra = EXTRA_SERS
            sers = MAIN_SERS + (["direct_io"] if k % 2 == 0 else []) + \
                ([extra[k % len(extra)], extra[(k + 4) % len(extra)]] if k % 3 == 0 else [])
            try:
                run_fixture(ctx, fx, rng, quick, sers=sers)
                # the command itself on a few
                if k % (9 if quick else 15) == 0 and not fx.group:
                    for axis, axis_ids in (("sample", spec["samp"]), ("observation", spec["obs"])):
                        ok_ids = [i for i in axis_ids if expressible(i)]
                        if not ok_ids:
                            continue
                        ids = rng.sample(ok_ids, rng.randint(1, len(ok_ids)))
                        check_case(ctx, fx, "cmdh5", ids, axis, cli=True, deco=rng.choice(IDS_DECOS), tags=["cli"])
                        check_case(ctx, fx, "cmdjson", ids, axis, cli=True, deco=rng.choice(IDS_DECOS),
                                   ser=rng.choice(MAIN_SERS + ["direct_io"]), tags=["cli"])
                        # the ids file is stripped line by line: only blank-free unknown IDs here
                        base = max(axis_ids, key=len)
                        for u in (base + "0", base + "_b2"):
                            if u in axis_ids:
                                continue
                            if not expressible(u):
                                continue
                            req = [i for i in axis_ids if i != base and expressible(i)] + [u]
                            check_case(ctx, fx, "cmdh5", req, axis, cli=True, tags=["cli", "unknown-id"])
                            check_case(ctx, fx, "cmdjson", req, axis, cli=True, tags=["cli", "unknown-id"])
                        ctx.count("cli")
            finally:
                fx.close()
    finally:
        shutil.rmtree(TMP, ignore_errors=True)


def replay(ctx, rec):
    case = rec["case"]
    inp = case["input"]
    os.makedirs(TMP, exist_ok=True)
    try:
        fx = Fixture(inp["spec"], inp["route"], inp["gen"], 0, poke=inp.get("poke"))
        try:
            if inp["variant"] == "text":
                check_text(ctx, fx, inp["ids"], inp["axis"], inp["ser"])
            else:
                check_case(ctx, fx, inp["variant"], inp["ids"], inp["axis"], ser=inp.get("ser", "writer"),
                           how=inp.get("how", "list"), form=inp.get("form", "str"), cli=inp.get("cli", False),
                           opts=inp.get("opts") or None, deco=inp.get("deco") or "columns",
                           in_place=inp.get("in_place", False), tags=["replay"])
        finally:
            fx.close()
    finally:
        shutil.rmtree(TMP, ignore_errors=True)
