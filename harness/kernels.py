"""Second implementation under test for the three Cython kernels.

Cython is not installed in the sandbox, so an edit to a ``.pyx`` file cannot be compiled.  The
three files are ~370 lines of very restricted Cython; this module renders them as plain Python
(strips ``cdef``/``cimport``/typed declarations, keeps initialisers) and loads the result as modules
exposing the same functions (``_filter``, ``_transform``, ``subsample``).  Checks run the kernels
under both the compiled binary found in the repo and this rendering of the current source, so a
change to the ``.pyx`` text is exercised even though it cannot be compiled.
"""
import os
import re
import types

from . import core

TYPE = r"(?:cnp\.ndarray\[[^\]]*\]|cnp\.\w+|Py_ssize_t|object|int|double|bint)"


def _join_continuations(src):
    return re.sub(r"\\\n\s*", " ", src)


def _split_top(s):
    """split on commas that are not inside brackets"""
    out, depth, cur = [], 0, ""
    for ch in s:
        if ch in "([{":
            depth += 1
        elif ch in ")]}":
            depth -= 1
        if ch == "," and depth == 0:
            out.append(cur)
            cur = ""
        else:
            cur += ch
    if cur.strip():
        out.append(cur)
    return out


def _decl_to_assign(indent, decl):
    """'TYPE a, b = expr, c' -> assignments for the initialised names only"""
    m = re.match(r"\s*(?:cdef\s+)?" + TYPE + r"\s+(.*)$", decl)
    if not m:
        raise ValueError("cannot render declaration: %r" % decl)
    parts = _split_top(m.group(1))
    lines = []
    for p in parts:
        if "=" in p:
            name, expr = p.split("=", 1)
            lines.append("%s%s = %s" % (indent, name.strip(), expr.strip()))
    return lines


def render(pyx_src):
    src = _join_continuations(pyx_src)
    out = []
    lines = src.split("\n")
    i = 0
    in_cdef_block = None  # indentation of the 'cdef:' keyword
    while i < len(lines):
        line = lines[i]
        if line.strip().startswith("cdef ") and line.count("(") > line.count(")"):
            # a cdef function header spread over several lines
            while line.count("(") > line.count(")") and i + 1 < len(lines):
                i += 1
                line = line.rstrip() + " " + lines[i].strip()
        stripped = line.strip()
        indent = line[:len(line) - len(line.lstrip())]
        if in_cdef_block is not None:
            if stripped == "" or len(indent) > len(in_cdef_block):
                if stripped and not stripped.startswith("#"):
                    out.extend(_decl_to_assign(in_cdef_block, stripped))
                i += 1
                continue
            in_cdef_block = None
        if stripped.startswith("cimport ") or stripped.startswith("from libc") or stripped == "cnp.import_array()":
            i += 1
            continue
        if stripped == "cdef:":
            in_cdef_block = indent
            i += 1
            continue
        m = re.match(r"(\s*)cdef\s+(?:" + TYPE + r"\s+)?(\w+)\((.*)\)\s*:\s*$", line)
        if m and not re.match(r"\s*cdef\s+" + TYPE + r"\s+\w+\s*(=|,|$)", line):
            params = []
            for p in _split_top(m.group(3)):
                p = p.strip()
                p = re.sub(r"^" + TYPE + r"\s+", "", p)
                params.append(p)
            out.append("%sdef %s(%s):" % (m.group(1), m.group(2), ", ".join(params)))
            i += 1
            continue
        if re.match(r"\s*cdef\s+", line):
            out.extend(_decl_to_assign(indent, stripped))
            i += 1
            continue
        out.append(line)
        i += 1
    return "\n".join(out)


def load_rendered(repo=None):
    """returns {'_filter': module, '_transform': module, '_subsample': module} rendered from the .pyx"""
    repo = repo or core.REPO
    mods = {}
    for name in ("_filter", "_transform", "_subsample"):
        path = os.path.join(repo, "biom", name + ".pyx")
        py = render(open(path).read())
        mod = types.ModuleType("biom_rendered." + name)
        mod.__file__ = path + " (rendered)"
        exec(compile(py, path + ".rendered.py", "exec"), mod.__dict__)
        mods[name] = mod
    return mods


class use_kernels:
    """context manager: make biom.table call the given kernels (module globals are rebound)"""

    def __init__(self, mods):
        self.mods = mods

    def __enter__(self):
        import biom.table as T
        self.T = T
        self.saved = (T._filter, T._transform, T.subsample)
        T._filter = self.mods["_filter"]._filter
        T._transform = self.mods["_transform"]._transform
        T.subsample = self.mods["_subsample"].subsample
        return self

    def __exit__(self, *a):
        self.T._filter, self.T._transform, self.T.subsample = self.saved
        return False


def compiled():
    import biom._filter as f
    import biom._transform as t
    import biom._subsample as s
    return {"_filter": f, "_transform": t, "_subsample": s}


def kernel_impls():
    """[(name, mods)] — the compiled binaries the repo ships and the rendering of the current .pyx"""
    impls = [("compiled", compiled())]
    try:
        impls.append(("pyx-rendered", load_rendered()))
    except Exception as e:  # an edit the renderer cannot follow: reported by the caller
        impls.append(("pyx-render-failed: %s" % e, None))
    return impls
