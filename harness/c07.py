"""C07 — non-in-place operations never modify their inputs; in-place is equivalent.

A *world* holds every Table object created so far (all stay alive, all stay observed), the ID
arrays / matrices / metadata lists the caller handed to constructors, and the history of calls.
Around every call of the REAL API the harness takes deep snapshots (IDs, dense grid, metadata, type,
consistency of the ID lookups) of ALL live tables, records the identity of the returned object,
the dynamic aliasing facts of the real objects (np.shares_memory over the matrix buffers of every
pair of tables, over all ID arrays including the caller's, `is`-identity of metadata dicts, whether
each table still uses the matrix buffer it had before the call, the sparse layout), runs the
non-in-place twin on an equal table for in-place calls, and pokes every freshly returned table
(scale in place, add + delete a metadata key, filter in place, rename an ID in place).
The whole history goes to the Lean driver, which evaluates `C07.holds` on the observations of every
call and compares contents + aliasing facts with the heap model's prediction."""
import copy
import json
import random

import numpy as np

from . import core, kernels

AXES = ["sample", "observation"]
KEY = {"sample": "samp", "observation": "obs"}
MAX_LIVE = 9


def other(ax):
    return "observation" if ax == "sample" else "sample"


# ----------------------------------------------------------------------------- observation
def snap(t):
    try:
        return _snap(t)
    except Exception as e:  # a table so broken that it cannot be read is still an observation
        return {"obs": [], "samp": [], "rows": [], "omd": None, "smd": None,
                "type": "!!unreadable-table(%s)" % type(e).__name__}


def _snap(t):
    o = core.table_obs(t)
    s = {k: o[k] for k in ("obs", "samp", "rows", "omd", "smd", "type")}
    ok = True
    for ax in AXES:
        if len(set(s[KEY[ax]])) != len(s[KEY[ax]]):
            # duplicated IDs: not a table of the property's domain (errcheck lets them through on an empty
            # table because 'empty' masks the other tests, finding F-C05-1); lookups cannot be consistent
            continue
        for pos, i in enumerate(t.ids(axis=ax)):
            try:
                if t.index(i, ax) != pos or not t.exists(i, axis=ax):
                    ok = False
            except Exception:
                ok = False
    if (len(s["rows"]) != len(s["obs"])) or any(len(r) != len(s["samp"]) for r in s["rows"]):
        ok = False
    if tuple(t.matrix_data.shape) != (len(s["obs"]), len(s["samp"])):
        ok = False      # also when an axis is empty and the dense grid cannot show the disagreement
    if not ok:
        s["type"] = "!!inconsistent-table(index lookups or shape disagree with the IDs)"
    return s


def snap_g(t):
    """group metadata of both axes, as text (None = the axis has none)"""
    out = []
    for ax in ("observation", "sample"):
        try:
            g = t.group_metadata(axis=ax)
            out.append("null" if g is None else json.dumps({str(k): core.canon_value(v) for k, v in g.items()},
                                                          sort_keys=True, default=str))
        except Exception as e:
            out.append("!!" + type(e).__name__)
    return out


def ext_other_snap(kind, obj):
    if kind == "ndarray":
        return ["shape=%s" % (obj.shape,)] + [core.frac(x) for x in obj.ravel()]
    if kind == "sparse":
        out = [obj.getformat(), str(obj.shape)]
        for name in ("data", "indices", "indptr", "row", "col", "rows"):
            if hasattr(obj, name):
                v = getattr(obj, name)
                out.append("%s=%s" % (name, [list(x) if isinstance(x, list) else x for x in v.tolist()]))
        return out
    if kind == "md":
        return ["null" if m is None else json.dumps(core.canon_md_entry(m), sort_keys=True) for m in obj]
    if kind == "nested":
        return [json.dumps(obj)]
    raise ValueError(kind)


def build_equal(t):
    """an independent table with the same observable content, through the constructor"""
    import scipy.sparse as sp
    from biom import Table

    def md(ax):
        m = t.metadata(axis=ax)
        return None if m is None else [copy.deepcopy(dict(x)) for x in m]
    return Table(sp.csr_matrix(t.matrix_data.toarray()), [str(x) for x in t.ids(axis="observation")],
                 [str(x) for x in t.ids()], md("observation"), md("sample"), t.table_id, type=t.type)


def value_class(t):
    d = t.matrix_data.data
    if all(float(x).is_integer() and 0 <= x < 1e6 for x in d):
        return "int"
    if all(float(x * 1024).is_integer() and abs(x) < 1e6 for x in d):
        return "dyadic"
    return "other"


# ----------------------------------------------------------------------------- named function families
def F_transform(name):
    if name == "x2":
        return lambda v, i, m: v * 2
    if name == "zero":
        return lambda v, i, m: v * 0
    if name == "thr":
        return lambda v, i, m: np.where(v > 2, v, 0.)
    if name == "plus1":
        return lambda v, i, m: v + 1
    if name == "ident":
        return lambda v, i, m: v
    if name == "ordw":
        # order-sensitive: the k-th STORED value is multiplied by k+1 (exact on counts)
        return lambda v, i, m: v * (1 + np.arange(len(v)))
    if name == "writes_md":
        # a user function that writes into the metadata mapping it is handed
        def g(v, i, m):
            if m is not None:
                m["__seen"] = "yes"
            return v * 2
        return g
    if name == "raise2":
        state = {"n": 0}

        def f(v, i, m):
            state["n"] += 1
            if state["n"] >= 2:
                raise RuntimeError("user function fails on the second vector")
            return v * 3
        return f
    raise ValueError(name)


def F_filter(name, arg):
    if name == "sumgt":
        return lambda v, i, m: v.sum() > arg
    if name == "idin":
        s = set(arg)
        return lambda v, i, m: i in s
    if name == "mdgrp":
        return lambda v, i, m: m is not None and m.get("grp") == arg
    if name == "raise":
        def f(v, i, m):
            raise RuntimeError("predicate fails")
        return f
    raise ValueError(name)


def F_part(name):
    if name == "grp":
        return lambda i, m: (m.get("grp") if m is not None else None) or "nogrp"
    if name == "len":
        return lambda i, m: "L%d" % (len(i) % 2)
    if name == "first":
        return lambda i, m: i[:2]
    if name == "one":
        return lambda i, m: "all"
    if name == "none_some":
        return lambda i, m: None if len(i) % 2 else "even"
    raise ValueError(name)


def F_one_to_many(i, m):
    """every ID goes to one or two pathways (collapse(one_to_many=True))"""
    yield (["path", "A"], "A")
    if len(i) % 2:
        yield (["path", "B"], "B")


INPLACE_OPS = ["filter", "transform", "norm", "pa", "rankdata", "remove_empty", "update_ids"]
MD_OPS = ["add_metadata", "del_metadata", "add_group_metadata", "edit_md_value"]
# operations whose result shares nothing below the per-ID metadata mappings with its source (copy() deep-copies;
# transpose deep-copies); the others re-wrap the mappings only and share the VALUES (not judged, see meta.d)
DEEP_COPYING = ("copy", "transpose", "head", "subsample", "generate_subsamples", "filter", "transform", "norm", "pa",
                "rankdata", "remove_empty", "update_ids")


def mutable_md_positions(t, ax):
    """entries holding a list / mapping that no other entry of the same table references (tables derived through the
    constructor's shallow re-wrap can hold one list under two IDs; copy() preserves that; an edit would then change
    both entries — a consequence of the value sharing that is counted, not judged)"""
    md = t.metadata(axis=ax)
    refs = {}
    for a in AXES:
        for m in (t.metadata(axis=a) or ()):
            for v in m.values():
                if isinstance(v, (list, dict)):
                    refs[id(v)] = refs.get(id(v), 0) + 1
    out = []
    for k, m in enumerate(md or ()):
        vs = [v for v in m.values() if isinstance(v, (list, dict))]
        if vs and all(refs[id(v)] == 1 for v in vs):
            out.append(k)
    return out


def edit_md_value(t, ax, pos):
    m = t.metadata(axis=ax)[pos]
    for k in sorted(m):
        v = m[k]
        while isinstance(v, dict) and any(isinstance(x, (list, dict)) for x in v.values()):
            v = [x for _, x in sorted(v.items()) if isinstance(x, (list, dict))][0]     # innermost level
        if isinstance(v, list):
            v.append("__edited")
            return
        if isinstance(v, dict):
            v["__edited"] = 1
            return
    raise KeyError("no mutable metadata value")
NEW_OPS = ["copy", "transpose", "sort", "sort_order", "head", "subsample", "partition", "collapse", "merge",
           "concat", "align_to", "generate_subsamples", "ctor_from_table"]
ORDER_SENSITIVE = ("ordw",)
READS = ["data_samp", "data_obs", "iter_samp", "iter_obs", "nnz", "cell", "sum", "str", "md", "iter_flip"]


class Raised(Exception):
    pass


# ----------------------------------------------------------------------------- the world
class World:
    def __init__(self):
        self.live = []
        self.ext = []          # (kind, object) of everything the caller holds, in creation order
        self.ext_ids = []      # the ID arrays among them
        self.ext_id_idx = []   # ... and their positions in self.ext
        self.calls = []
        self.recipe = []
        self.prev_after = []
        self.problems = []
        self.stats = {}
        self.md_value_shared = 0
        self.out_of_domain = False
        self.read_failures = []
        self.incoherent = []
        self.arg_cache = {}
        self.deep_share = []

    def arg(self, obj):
        """the SAME python object for equal arguments of different calls (lists of IDs, ID maps, metadata dicts):
        callers re-use such objects, and no call may change them"""
        key = json.dumps(obj, sort_keys=True, ensure_ascii=False)
        if key not in self.arg_cache:
            self.arg_cache[key] = (obj, json.dumps(obj, ensure_ascii=False))
        return self.arg_cache[key][0]

    def check_args(self):
        for key, (obj, js) in self.arg_cache.items():
            if json.dumps(obj, ensure_ascii=False) != js:
                self.problems.append("an argument object was modified by a call (call %d): %s -> %s" % (
                    len(self.calls), js[:80], json.dumps(obj, ensure_ascii=False)[:80]))
                self.arg_cache[key] = (obj, json.dumps(obj, ensure_ascii=False))

    def count(self, k):
        self.stats[k] = self.stats.get(k, 0) + 1

    # ---- facts about the real objects
    def facts(self, old_indptr):
        L = self.live
        bufs = [(t.matrix_data.data, t.matrix_data.indices, t.matrix_data.indptr) for t in L]
        mat_share = []
        for i in range(len(L)):
            for j in range(i + 1, len(L)):
                if any(np.may_share_memory(a, b) and np.shares_memory(a, b) for a in bufs[i] for b in bufs[j]):
                    mat_share.append([i, j])
        owners = []
        for i, t in enumerate(L):
            owners.append(("t%d.o" % i, t.ids(axis="observation")))
            owners.append(("t%d.s" % i, t.ids()))
        for j, a in enumerate(self.ext_ids):
            owners.append(("e%d" % j, a))
        unknown = [n for n, a in owners if a.size == 0]
        id_share = []
        for x in range(len(owners)):
            for y in range(x + 1, len(owners)):
                a, b = owners[x][1], owners[y][1]
                if a.size and b.size and np.may_share_memory(a, b) and np.shares_memory(a, b):
                    id_share.append([owners[x][0], owners[y][0]])
        dids = []
        for t in L:
            dids.append([id(x) for ax in ("observation", "sample") for x in (t.metadata(axis=ax) or ())])
        dict_share = [[i, j] for i in range(len(L)) for j in range(i + 1, len(L)) if set(dids[i]) & set(dids[j])]
        dict_dup = [i for i in range(len(L)) if len(set(dids[i])) != len(dids[i])]
        kept = [i for i, ip in enumerate(old_indptr) if np.shares_memory(ip, L[i].matrix_data.indptr)]
        # not part of the model: mutable metadata VALUES shared between tables (constructor re-wraps dicts shallowly)
        vals = []
        for t in L:
            s = set()
            for ax in AXES:
                for d in (t.metadata(axis=ax) or ()):
                    for v in d.values():
                        if isinstance(v, (list, dict)):
                            s.add(id(v))
            vals.append(s)
        if any(vals[i] & vals[j] for i in range(len(L)) for j in range(i + 1, len(L))):
            self.md_value_shared += 1
        # the {id: position} lookups and the group-metadata dicts are objects too
        look = [[id(x) for x in (getattr(t, "_obs_index", None), getattr(t, "_sample_index", None)) if x is not None]
                for t in L]
        grp = [[id(x) for x in (getattr(t, "_observation_group_metadata", None),
                                getattr(t, "_sample_group_metadata", None)) if x is not None] for t in L]
        lookup_share = [[i, j] for i in range(len(L)) for j in range(i + 1, len(L))
                        if (set(look[i]) & set(look[j])) or (set(grp[i]) & set(grp[j]))]
        return {"fmt": [t.matrix_data.getformat() for t in L], "mat_share": mat_share, "id_share": id_share,
                "id_unknown": unknown, "dict_share": dict_share, "dict_dup": dict_dup, "kept": kept,
                "lookup_share": lookup_share}

    def ext_snaps(self):
        return [[str(x) for x in o] if k == "ids" else ext_other_snap(k, o) for k, o in self.ext]

    def hold(self, kind, obj):
        self.ext.append((kind, obj))

    # ---- recording one call
    def record(self, name, args, recv, inplace, results, raised, ref, old_indptr, extra=None):
        res_idx = []
        for r in results:
            for i, t in enumerate(self.live):
                if t is r:
                    res_idx.append(i)
                    break
            else:
                self.live.append(r)
                res_idx.append(len(self.live) - 1)
        after = [snap(t) for t in self.live]
        if any(len(set(a[k])) != len(a[k]) for a in after for k in ("obs", "samp")):
            self.out_of_domain = "table-with-duplicated-IDs(empty table, F-C05-1 masking)"
        n_before = len(self.prev_after)
        if any(str(a["type"]).startswith("!!") for a in after[n_before:]):
            # a table that is returned with a matrix shape disagreeing with its IDs (e.g. collapse of an Nx0
            # table gives a 0x0 matrix with N IDs, let through by errcheck because 'empty' masks the size tests)
            self.out_of_domain = "returned-table-inconsistent-at-birth(shape vs IDs, F-C05-1 masking)"
        rec = {"name": name, "args": args, "raised": bool(raised), "inplace": bool(inplace), "recv": recv,
               "results": res_idx, "result_contents": [after[i] for i in res_idx], "ref": ref, "after": after,
               "ext": self.ext_snaps(), "ext_id_idx": list(self.ext_id_idx),
               "gmd": [snap_g(t) for t in self.live], "facts": self.facts(old_indptr), "poke": 0}
        if raised:
            rec["error"] = raised
        if extra:
            rec.update(extra)
        self.calls.append(rec)
        self.prev_after = after
        return res_idx

    def pre(self):
        before = [snap(t) for t in self.live]
        if before != self.prev_after:
            self.problems.append("a table changed between two calls (call %d)" % len(self.calls))
        return before, [t.matrix_data.indptr for t in self.live]

    # ---- caller-side constructors
    def new_ext_ids(self, ids):
        before, old = self.pre()
        a = np.array(list(ids))
        self.ext_ids.append(a)
        self.ext_id_idx.append(len(self.ext))
        self.hold("ids", a)
        self.recipe.append(["ext_ids", list(ids)])
        self.record("ext_ids", {"ids": list(ids)}, 0, False, [], None, None, old)
        return len(self.ext_ids) - 1

    def construct(self, spec, route, obs_src=None, samp_src=None):
        """Table(...) from caller-held data; *_src = index of a caller-held ID array or None (a list)"""
        import scipy.sparse as sp
        from biom import Table
        before, old = self.pre()
        arr = np.array(spec["rows"], dtype=float).reshape(len(spec["obs"]), len(spec["samp"]))
        omd = copy.deepcopy(spec.get("omd"))
        smd = copy.deepcopy(spec.get("smd"))
        kw = {}
        if route == "dense":
            data = arr
            self.hold(*("ndarray", data))
        elif route == "nested":
            data = [[float(x) for x in r] for r in arr.tolist()]
            kw["input_is_dense"] = True
            self.hold(*("nested", data))
        elif route in ("csr", "csc", "coo", "lil"):
            data = getattr(sp, route + "_matrix")(arr)
            self.hold(*("sparse", data))
        elif route == "csr_unsorted":
            data = sp.csr_matrix(arr)
            for i in range(data.shape[0]):
                s, e = data.indptr[i], data.indptr[i + 1]
                data.indices[s:e] = data.indices[s:e][::-1].copy()
                data.data[s:e] = data.data[s:e][::-1].copy()
            data.has_sorted_indices = False
            self.hold(*("sparse", data))
        elif route == "csr_zeros":
            rows, cols, vals = [], [], []
            for i in range(arr.shape[0]):
                for j in range(arr.shape[1]):
                    rows.append(i); cols.append(j); vals.append(arr[i, j])
            data = sp.csr_matrix((np.array(vals, dtype=float), (np.array(rows, dtype=int), np.array(cols, dtype=int))),
                                 shape=arr.shape)
            self.hold(*("sparse", data))
        else:
            raise ValueError(route)
        if arr.size == 0 and route in ("dense", "nested"):
            data = sp.csr_matrix(arr)
            kw = {}
            self.ext[-1] = ("sparse", data)
        if omd is not None:
            self.hold(*("md", omd))
        if smd is not None:
            self.hold(*("md", smd))
        oids = self.ext_ids[obs_src] if obs_src is not None else list(spec["obs"])
        sids = self.ext_ids[samp_src] if samp_src is not None else list(spec["samp"])
        # group metadata: every table gets dict objects of its own (the constructor keeps the caller's dict by
        # reference and add_group_metadata updates it in place, see the note in tools/meta.d/C07.json)
        if spec.get("ogmd") is not None:
            kw["observation_group_metadata"] = copy.deepcopy(spec["ogmd"])
        if spec.get("sgmd") is not None:
            kw["sample_group_metadata"] = copy.deepcopy(spec["sgmd"])
        try:
            t = Table(data, oids, sids, omd, smd, type=spec.get("type"), **kw)
        except Exception:
            # refused by the constructor (an empty table under errstate(empty='raise')): nothing was built
            return None
        src = lambda k: {"kind": "list"} if k is None else {"kind": "ext", "j": k}
        self.recipe.append(["construct", route, obs_src, samp_src])
        idx = self.record("construct", {"obs_src": src(obs_src), "samp_src": src(samp_src), "route": route},
                          0, False, [t], None, None, old)
        return idx[0]

    # ---- read accessors: answers are judged against the CURRENT content; the conversions they cache are modelled
    def read(self, i, acc, rng):
        if self.out_of_domain:
            return
        t = self.live[i]
        if t.shape[0] == 0 or t.shape[1] == 0:
            return
        before, old = self.pre()
        cur = before[i]
        F = core.frac
        bad = None
        try:
            if acc in ("data_samp", "data_obs"):
                ax = "sample" if acc == "data_samp" else "observation"
                ids = cur[KEY[ax]]
                for pos in rng.sample(range(len(ids)), min(2, len(ids))):
                    got = [F(x) for x in t.data(ids[pos], axis=ax, dense=True)]
                    want = cur["rows"][pos] if ax == "observation" else [r[pos] for r in cur["rows"]]
                    if got != want:
                        bad = "data(%r, %s) = %s, content says %s" % (ids[pos], ax, got, want)
            elif acc in ("iter_samp", "iter_obs"):
                ax = "sample" if acc == "iter_samp" else "observation"
                got = [([F(x) for x in v], str(i_)) for v, i_, _ in t.iter(axis=ax)]
                rows = cur["rows"] if ax == "observation" else [[r[j] for r in cur["rows"]] for j in range(len(cur["samp"]))]
                want = [(rows[k], cur[KEY[ax]][k]) for k in range(len(rows))]
                if got != want:
                    bad = "iter(%s) disagrees with the content" % ax
            elif acc == "iter_flip":
                # an iterator over samples is suspended while a row read flips the layout, then resumed
                it = t.iter(axis="sample")
                got = []
                for k, (v, i_, _) in enumerate(it):
                    got.append(([F(x) for x in v], str(i_)))
                    if k == 0:
                        t.data(cur["obs"][0], axis="observation")
                want = [([r[j] for r in cur["rows"]], cur["samp"][j]) for j in range(len(cur["samp"]))]
                if got != want:
                    bad = "iter(sample) suspended over a row read disagrees with the content"
            elif acc == "nnz":
                want = sum(1 for r in cur["rows"] for x in r if x != "0")
                if t.nnz != want:
                    bad = "nnz = %d, content has %d non-zero cells" % (t.nnz, want)
            elif acc == "cell":
                a, b = rng.randrange(len(cur["obs"])), rng.randrange(len(cur["samp"]))
                got = F(t.get_value_by_ids(cur["obs"][a], cur["samp"][b]))
                if got != cur["rows"][a][b]:
                    bad = "get_value_by_ids(%r, %r) = %s, content says %s" % (cur["obs"][a], cur["samp"][b], got,
                                                                             cur["rows"][a][b])
            elif acc == "sum":
                ax = rng.choice(["sample", "observation", "whole"])
                got = np.atleast_1d(np.asarray(t.sum(ax), dtype=float))
                dense = np.array([[float(core.unfrac(x)) for x in r] for r in cur["rows"]], dtype=float)
                want = dense.sum(axis=0) if ax == "sample" else dense.sum(axis=1) if ax == "observation" else \
                    np.atleast_1d(dense.sum())
                if got.shape != want.shape or not np.allclose(got, want, rtol=1e-12, atol=1e-12 * float(np.abs(dense).max() if dense.size else 0)):
                    bad = "sum(%s) = %s, content says %s" % (ax, got.tolist(), want.tolist())
            elif acc == "str":
                lines = str(t).split("\n")
                body = [l for l in lines if not l.startswith("# ")][1:]
                got = [[float(x) for x in l.split("\t")[1:]] for l in body]
                want = [[float(core.unfrac(x)) for x in r] for r in cur["rows"]]
                if got != want:
                    bad = "str(table) rows disagree with the content"
            elif acc == "md":
                ax = rng.choice(AXES)
                ids = cur[KEY[ax]]
                pos = rng.randrange(len(ids))
                m = t.metadata(ids[pos], axis=ax)
                want = None if cur[KEY[ax][0] + "md"] is None else cur[KEY[ax][0] + "md"][pos]
                got = None if m is None else core.canon_md_entry(m)
                if got != want:
                    bad = "metadata(%r, %s) = %s, content says %s" % (ids[pos], ax, got, want)
            else:
                raise ValueError(acc)
        except Exception as e:  # a read accessor that raises on a non-empty, valid table
            bad = "%s raised %s: %s" % (acc, type(e).__name__, e)
        self.recipe.append(["read", i, acc])
        self.record("read", {"table": i, "accessor": acc}, i, False, [], None, None, old)
        if bad:
            self.read_failures.append((len(self.calls) - 1, acc, bad))

    # ---- API calls
    def call(self, name, recv, p):
        """run one API call on live table `recv`; p = python-level parameters (JSON-able)"""
        if self.out_of_domain:
            # a table outside the property's domain exists: the history ends here
            return [], "out-of-domain"
        t = self.live[recv]
        before, old = self.pre()
        cur = before[recv]
        inplace = bool(p.get("inplace", False)) or name in MD_OPS
        self.recipe.append([name, recv, p])
        ref = None
        if inplace:
            # the non-in-place variant on an equal table
            try:
                eq = build_equal(t)
            except Exception:
                eq = None
            sensitive = p.get("fn") in ORDER_SENSITIVE or p.get("method") == "ordinal"
            if sensitive or (len(self.calls) + recv) % 2 == 0:
                # "in place and copy must agree" on the very same receiver: whatever its layout and the order of
                # its stored values, which an equal table built afresh would not have
                eq = None
            if eq is None or snap(eq) != cur:
                # the receiver's state cannot be built by the constructor; the receiver itself is the equal table
                eq = t
                self.count("twin-on-receiver-itself")
            try:
                r2 = run_op(self, name, eq, dict(p, inplace=False), twin=True)
                ref = snap(r2[0])
            except Raised:
                ref = None
            if eq is t and snap(t) != cur:
                self.problems.append("non-in-place twin modified its receiver (call %d)" % len(self.calls))
        raised = None
        try:
            results = run_op(self, name, t, p, twin=False)
        except Raised as e:
            results = []
            raised = str(e)
        if name in MD_OPS and raised is None:
            results = [t]        # convention: these return None; treated as returning the receiver
        idx = self.record(name, None, recv, inplace, results, raised, ref, old)
        rec = self.calls[-1]
        self.check_args()
        if inplace and raised is not None and rec["after"][recv] != cur:
            # the call raised after it had changed its receiver (errcheck runs after the change); the receiver
            # must at least be coherent; the model cannot follow it, so the history ends here
            self.count("inplace-call-raised-after-changing-its-receiver:%s:%s" % (name, raised))
            if str(rec["after"][recv]["type"]).startswith("!!"):
                self.incoherent.append((len(self.calls) - 1, name, raised))
            self.out_of_domain = "in-place call raised after changing its receiver"
        rec["args"] = op_args(name, p, cur, [self.prev_after[i] for i in idx], self)
        return idx, raised


def run_op(W, name, t, p, twin):
    """execute the real operation; returns the list of returned tables"""
    ax = p.get("axis", "sample")
    ip = bool(p.get("inplace", False))
    # the flag as callers spell it: the literal, a numpy boolean, an integer
    spell = p.get("flag", "bool") if not twin else "bool"
    ip = {"bool": ip, "np": np.bool_(ip), "int": int(ip)}[spell]
    pos = bool(p.get("positional")) and not twin
    try:
        if name == "filter":
            sel = W.arg(p["ids"]) if p["mode"] == "ids" else F_filter(p["fn"], p.get("arg"))
            if p["mode"] == "ids" and p.get("ids_as") == "array" and sel:
                sel = np.array(sel)
            inv = p.get("invert", False)
            inv = {"bool": inv, "np": np.bool_(inv), "int": int(inv)}[spell]
            if pos:
                return [t.filter(sel, ax, inv, ip)]
            return [t.filter(sel, axis=ax, invert=inv, inplace=ip)]
        if name == "transform":
            if pos:
                return [t.transform(F_transform(p["fn"]), ax, ip)]
            return [t.transform(F_transform(p["fn"]), axis=ax, inplace=ip)]
        if name == "norm":
            return [t.norm(ax, ip)] if pos else [t.norm(axis=ax, inplace=ip)]
        if name == "pa":
            return [t.pa(ip)] if pos else [t.pa(inplace=ip)]
        if name == "rankdata":
            if pos:
                return [t.rankdata(ax, ip, p.get("method", "average"))]
            return [t.rankdata(axis=ax, inplace=ip, method=p.get("method", "average"))]
        if name == "remove_empty":
            return [t.remove_empty(ax, ip)] if pos else [t.remove_empty(axis=ax, inplace=ip)]
        if name == "update_ids":
            if pos:
                return [t.update_ids(W.arg(p["map"]), ax, p.get("strict", True), ip)]
            return [t.update_ids(W.arg(p["map"]), axis=ax, strict=p.get("strict", True), inplace=ip)]
        if name == "edit_md_value":
            # a change BELOW the per-ID mapping, through metadata(): append to a list / set a key of a nested dict
            tgt = t.copy() if twin else t
            edit_md_value(tgt, ax, p["pos"])
            return [tgt]
        if name == "add_metadata":
            tgt = t.copy() if twin else t
            tgt.add_metadata(W.arg(p["md"]), axis=ax)
            return [tgt]
        if name == "add_group_metadata":
            tgt = t.copy() if twin else t
            tgt.add_group_metadata(copy.deepcopy(p["gmd"]), axis=ax)
            return [tgt]
        if name == "del_metadata":
            tgt = t.copy() if twin else t
            tgt.del_metadata(keys=W.arg(p["keys"]) if p.get("keys") is not None else None, axis=ax)
            return [tgt]
        if name == "copy":
            return [t.copy()]
        if name == "transpose":
            return [t.transpose()]
        if name == "sort":
            if p.get("rev"):
                return [t.sort(sort_f=lambda ids: sorted(ids, reverse=True), axis=ax)]
            return [t.sort(axis=ax)]
        if name == "sort_order":
            o = p["order"]
            if o["kind"] == "list":
                order = W.arg(o["ids"])
            elif o["kind"] == "ext":
                order = W.ext_ids[o["j"]]
            else:
                order = W.live[o["i"]].ids(axis=o["axis"])
            return [t.sort_order(order, axis=ax)]
        if name == "head":
            return [t.head(n=p["n"], m=p["m"])]
        if name == "subsample":
            return [t.subsample(p["n"], axis=ax, by_id=p.get("by_id", False),
                                with_replacement=p.get("with_replacement", False), seed=p.get("seed", 0))]
        if name == "generate_subsamples":
            from biom.util import generate_subsamples
            gen = generate_subsamples(t, p["n"], ax, p.get("by_id", False))
            return [next(gen) for _ in range(p.get("draws", 2))]
        if name == "ctor_from_table":
            from biom import Table
            return [Table(t.matrix_data, t.ids(axis="observation"), t.ids(), t.metadata(axis="observation"),
                          t.metadata(), t.table_id, type=t.type)]
        if name == "partition":
            return [tab for _, tab in t.partition(F_part(p["fn"]), axis=ax, remove_empty=p.get("remove_empty", False),
                                                  ignore_none=p.get("ignore_none", False))]
        if name == "collapse":
            if p.get("one_to_many"):
                return [t.collapse(F_one_to_many, axis=ax, norm=False, one_to_many=True,
                                   one_to_many_mode=p.get("mode", "add"), strict=p.get("strict", False),
                                   include_collapsed_metadata=p.get("icm", True))]
            return [t.collapse(F_part(p["fn"]), axis=ax, norm=p.get("norm", False),
                               min_group_size=p.get("min_group_size", 1),
                               include_collapsed_metadata=p.get("icm", True))]
        if name == "merge":
            oth = [W.live[i] for i in p["others"]] if "others" in p else W.live[p["other"]]
            kw = {}
            if p.get("ignore_md"):
                kw = {"sample_metadata_f": None, "observation_metadata_f": None}
            return [t.merge(oth, sample=p.get("sample", "union"), observation=p.get("observation", "union"), **kw)]
        if name == "concat":
            return [t.concat([W.live[i] for i in p["others"]], axis=ax)]
        if name == "align_to":
            return [t.align_to(W.live[p["other"]], axis=p["align"])]
    except Exception as e:  # noqa: every failure of the real call is an observation
        raise Raised("%s: %s" % (core.err_name(e), type(e).__name__))
    raise ValueError(name)


def op_args(name, p, cur, res, W):
    """the JSON the Lean side needs to mirror the call (content functions are passed as their values)"""
    ax = p.get("axis", "sample")
    r0 = res[0] if res else None
    if name == "filter":
        return {"axis": ax, "ids": r0[KEY[ax]]} if r0 else {"axis": ax}
    if name in ("transform", "norm", "rankdata"):
        a = {"axis": ax, "rows": r0["rows"]} if r0 else {"axis": ax}
        if name == "transform" and p.get("fn") == "writes_md" and r0 and r0[KEY[ax][0] + "md"] is not None:
            # the user function wrote into every mapping it was handed
            a["ups"] = [{"__seen": json.dumps("yes")} for _ in r0[KEY[ax]]]
        return a
    if name == "pa":
        return {"axis": "sample", "rows": r0["rows"]} if r0 else {"axis": "sample"}
    if name == "remove_empty":
        axes = ["sample", "observation"] if ax == "whole" else [ax]
        return {"stages": [{"axis": a, "ids": r0[KEY[a]]} for a in axes]} if r0 else {"stages": []}
    if name == "update_ids":
        return {"axis": ax, "ids": r0[KEY[ax]]} if r0 else {"axis": ax}
    if name == "add_metadata":
        md = p["md"]
        return {"axis": ax, "ups": [core.canon_md_entry(md[i]) if i in md else None for i in cur[KEY[ax]]]}
    if name == "del_metadata":
        return {"axes": ["sample", "observation"] if ax == "whole" else [ax], "keys": p.get("keys")}
    if name == "add_group_metadata":
        return {"axis": ax}
    if name == "edit_md_value":
        # the entry as it is afterwards, for the edited ID only
        new = r0[KEY[ax][0] + "md"][p["pos"]] if r0 else None
        return {"axis": ax, "ups": [new if k == p["pos"] else None for k in range(len(cur[KEY[ax]]))]}
    if name in ("copy", "transpose", "head"):
        return {}
    if name in ("sort", "collapse"):
        return {"axis": ax}
    if name == "sort_order":
        o = p["order"]
        return {"axis": ax, "order": {"kind": "list"} if o["kind"] == "list" else o}
    if name in ("subsample", "generate_subsamples"):
        return {"axis": ax, "by_id": bool(p.get("by_id", False))}
    if name == "ctor_from_table":
        return {"src": p["src"]}
    if name == "partition":
        return {"axis": ax, "remove_empty": bool(p.get("remove_empty", False))}
    if name == "merge":
        return {"others": list(p["others"]) if "others" in p else [p["other"]], "ignore_md": bool(p.get("ignore_md")),
                "union_union": p.get("sample", "union") == "union" and p.get("observation", "union") == "union"}
    if name == "concat":
        return {"others": list(p["others"])}
    if name == "align_to":
        return {"other": p["other"], "axis": p["align"]}
    raise ValueError(name)


# ----------------------------------------------------------------------------- poke
def poke(W, ri, rng, deep=False):
    """later in-place changes to a freshly returned table, in random order (an early step may replace objects —
    lookups, ID arrays, dicts, buffers — that a later step would otherwise have written)"""
    n0 = len(W.calls)
    t = W.live[ri]
    steps = ["transform", "md", "filter", "update_ids", "group_md"] + (["deep_md"] if deep else [])
    rng.shuffle(steps)
    for st in steps:
        ax = rng.choice(AXES)
        ids = [str(x) for x in t.ids(axis=ax)]
        if st == "transform":
            W.call("transform", ri, {"axis": ax, "fn": "x2", "inplace": True})
        elif st == "md" and ids:
            W.call("add_metadata", ri, {"axis": ax, "md": {ids[0]: {"__poke": 1}}})
            W.call("del_metadata", ri, {"axis": rng.choice([ax, "whole"]), "keys": ["__poke"]})
        elif st == "filter":
            W.call("filter", ri, {"axis": ax, "mode": "ids", "ids": ids[1:] if len(ids) >= 2 else ids, "inplace": True})
        elif st == "update_ids" and ids:
            c = rng.random()
            if c < 0.5 or len(ids) < 2:
                m = {ids[0]: ids[0] + "_p"}
            elif c < 0.75:
                m = {ids[0]: ids[1], ids[1]: ids[0]}                       # swap
            else:
                m = {ids[k]: ids[(k + 1) % len(ids)] for k in range(len(ids))}   # rotation
            W.call("update_ids", ri, {"axis": ax, "map": m, "strict": False, "inplace": True})
        elif st == "deep_md":
            cands = [(a, k) for a in AXES for k in mutable_md_positions(t, a)]
            if cands:
                a, k = rng.choice(cands)
                W.call("edit_md_value", ri, {"axis": a, "pos": k})
        elif st == "group_md":
            W.call("add_group_metadata", ri, {"axis": ax, "gmd": {"__poke_group": ["str", "p%d" % len(W.calls)]}})
    return len(W.calls) - n0


def api_call(W, name, recv, p, rng, do_poke=True):
    """one call of the property's operation list, followed by the poke of what it returned"""
    k = len(W.calls)
    idx, raised = W.call(name, recv, p)
    if len(W.calls) == k:
        return idx, raised
    rec = W.calls[k]
    if not rec["inplace"] and raised is None and idx:
        def value_objects(u):
            return set(id(v) for a in AXES for m in (u.metadata(axis=a) or ()) for v in m.values()
                       if isinstance(v, (list, dict)))
        new = set(idx)
        shared = any(value_objects(W.live[i]) & value_objects(u) for i in idx
                     for j, u in enumerate(W.live) if j not in new)
        if shared and name in DEEP_COPYING:
            # copy(), transpose and the inplace=False family deep-copy the metadata (fixed list, established on the
            # unchanged tree): a result that shares a nested value with an older table has left that set
            W.deep_share.append((k, name))
        elif shared:
            W.count("nested-metadata-values-shared-with-source(counted, not judged):" + name)
    if not rec["inplace"] and raised is None and do_poke:
        n = 0
        for ri in idx:
            n += poke(W, ri, rng, deep=name in DEEP_COPYING)
        rec["poke"] = n
    return idx, raised


# ----------------------------------------------------------------------------- generation
def gen_md(rng, ids, kind):
    if kind == "none":
        return None
    md = []
    for i, _ in enumerate(ids):
        e = {}
        if kind in ("text", "mixed", "holes"):
            e["grp"] = rng.choice(["a", "b"])
        if kind in ("tax", "mixed"):
            e["taxonomy"] = ["k__%s" % rng.choice("AB"), "p__%s" % rng.choice("xy")]
        if kind == "ragged":
            # the first ID holds scalars only; later IDs hold lists / mappings nested two levels, of unequal length
            e = {"grp": rng.choice(["a", "b"]), "n": i}
            if i >= 1:
                e["taxonomy"] = ["k__A"] + ["p__%d" % j for j in range(rng.randint(0, 3))]
            if i >= 1 and rng.random() < 0.6:
                e["nest"] = {"a": {"b": [1, 2], "c": "x"}, "d": None}
        if kind == "holes" and rng.random() < 0.5:
            e = {}
        md.append(e)
    if kind == "holes" and all(not e for e in md):
        md[0] = {"grp": "a"}
    return md


EXOTIC_VALUES = [5e-324, 1e-300, 2.0 ** -40, 0.1, 1.0 / 3.0, 2.0 ** 70, 16777217.0, 123456789012345.0, -2.5, 1e290,
                 33554433.0, 2.2250738585072014e-308]


def gen_ids(rng, n, prefix):
    """ordinary IDs, or IDs from the awkward corners of text: canonically equivalent spellings as DISTINCT IDs,
    format characters, quotes, unusual line separators, blanks"""
    c = rng.random()
    if c < 0.7:
        return core.gen_ids(rng, n, prefix, rng.choice(["ascii", "mixed"]))
    pool = core.twin_ids(rng, 2) + rng.sample(core.NASTY_TEXTS, min(4, len(core.NASTY_TEXTS)))
    pool = [x for x in pool if "\n" not in x and "\t" not in x]
    rng.shuffle(pool)
    out = pool[:n]
    out += core.gen_ids(rng, n - len(out), prefix, "ascii")
    return out


def gen_group_md(rng):
    if rng.random() < 0.65:
        return None
    return {"tree": ["newick", "((a,b),c);"], "n%d" % rng.randint(0, 3): ["str", rng.choice(["x", "y"])]}


def gen_spec(rng, n=None, m=None, holes=False, density=None, plain_values=False):
    degenerate = n is None and m is None and rng.random() < 0.04
    n = n or rng.randint(1, 4)
    m = m or rng.randint(1, 4)
    obs = gen_ids(rng, n, "O")
    samp = gen_ids(rng, m, "S")
    if rng.random() < 0.15:
        # names shared across both axes
        k = min(n, m, rng.randint(1, 2))
        samp = obs[:k] + [x for x in samp if x not in obs[:k]][:m - k]
        samp += core.gen_ids(rng, m - len(samp), "S", "ascii")
    if degenerate:
        # one empty axis
        if rng.random() < 0.5:
            obs, n = [], 0
        else:
            samp, m = [], 0
    kinds = ["none", "text", "tax", "mixed", "ragged"] + (["holes"] if holes else [])
    rows = core.gen_grid(rng, n, m, density if density is not None else rng.choice([0.3, 0.6, 0.9, 1.0]), ("count",))
    if not plain_values and rng.random() < 0.12:
        # values outside the comfortable range: denormals, integers above 2**24 / 2**53, non-dyadic fractions, negatives
        rows = [[(rng.choice(EXOTIC_VALUES) if (x != 0 and rng.random() < 0.6) else x) for x in r] for r in rows]
    return {"obs": obs, "samp": samp, "rows": rows,
            "omd": gen_md(rng, obs, rng.choice(kinds)) if n else None,
            "smd": gen_md(rng, samp, rng.choice(kinds)) if m else None,
            "type": rng.choice(core.TYPES), "ogmd": gen_group_md(rng), "sgmd": gen_group_md(rng)}


CTOR_ROUTES = ["dense", "csr", "csc", "coo", "lil", "csr_unsorted", "csr_zeros", "nested"]


def gen_params(rng, W, name, recv):
    """parameters of one call, with the ways callers spell them: flags as numpy booleans / integers, optional
    arguments bound by position, arrays where lists are usual"""
    p = gen_params0(rng, W, name, recv)
    if p is not None and name in INPLACE_OPS:
        c = rng.random()
        if c < 0.3:
            p["flag"] = rng.choice(["np", "int"])
        if rng.random() < 0.25:
            p["positional"] = True
        if name == "filter" and p.get("mode") == "ids" and rng.random() < 0.3:
            p["ids_as"] = "array"
    return p


def gen_params0(rng, W, name, recv):
    """python-level parameters of one call on live table `recv` (None: not applicable)"""
    t = W.live[recv]
    ax = rng.choice(AXES)
    ids = [str(x) for x in t.ids(axis=ax)]
    vc = value_class(t)
    ip = rng.random() < 0.5
    if name == "filter":
        mode = rng.choice(["ids", "ids", "fn"])
        if mode == "ids":
            c = rng.random()
            if c < 0.1:
                sel = list(ids)
            elif c < 0.18:
                sel = []
            elif c < 0.24:
                # an unknown ID that looks like a member (extension, prefix, case variant, blank): must be refused
                unk = core.tricky_unknown_ids(ids) or ["no-such-id"]
                sel = ids[:1] + [rng.choice(unk)]
            else:
                sel = [i for i in ids if rng.random() < 0.6]
                if sel and rng.random() < 0.25:
                    sel = sel + [sel[0]]          # a request naming an ID twice
                if rng.random() < 0.3:
                    rng.shuffle(sel)
            return {"axis": ax, "mode": "ids", "ids": sel, "invert": rng.random() < 0.3, "inplace": ip}
        fn = rng.choice(["sumgt", "idin", "mdgrp", "raise"] if not ip else ["sumgt", "idin", "mdgrp"])
        arg = {"sumgt": rng.choice([0, 3, 20]), "idin": [i for i in ids if rng.random() < 0.5],
               "mdgrp": rng.choice(["a", "b"]), "raise": None}[fn]
        return {"axis": ax, "mode": "fn", "fn": fn, "arg": arg, "invert": rng.random() < 0.3, "inplace": ip}
    if name == "transform":
        fns = ["x2", "zero", "thr", "ident", "writes_md"] + (["plus1", "ordw", "ordw"] if vc == "int" else []) + \
            ([] if ip else ["raise2"])
        return {"axis": ax, "fn": rng.choice(fns), "inplace": ip}
    if name == "norm":
        return {"axis": ax, "inplace": ip} if vc == "int" else None
    if name == "pa":
        return {"inplace": ip}
    if name == "rankdata":
        return {"axis": ax, "method": rng.choice(["average", "min", "dense", "ordinal"]), "inplace": ip}
    if name == "remove_empty":
        return {"axis": rng.choice(["whole", "sample", "observation"]), "inplace": ip}
    if name == "update_ids":
        c = rng.random()
        if not ids:
            return None
        if c < 0.2:
            return {"axis": ax, "map": {i: i + "x" for i in ids}, "strict": True, "inplace": ip}
        if c < 0.3:
            # new IDs much longer than every existing one (fixed-width ID arrays must not truncate them)
            w = max(len(i) for i in ids)
            return {"axis": ax, "map": {i: i + "_" + "L" * (w + 3) for i in ids[:2]}, "strict": False, "inplace": ip}
        if c < 0.4:
            # new IDs of exactly the old width (they would fit into the existing, possibly shared, array)
            def same_width(i):
                return i[:-1] + ("#" if i[-1] != "#" else "%")
            return {"axis": ax, "map": {ids[0]: same_width(ids[0])}, "strict": rng.random() < 0.3 and len(ids) == 1,
                    "inplace": ip}
        if c < 0.6:
            return {"axis": ax, "map": {ids[0]: "renamed"}, "strict": False, "inplace": ip}
        if c < 0.7 and len(ids) >= 2:
            return {"axis": ax, "map": {ids[0]: ids[1], ids[1]: ids[0]}, "strict": False, "inplace": ip}
        if c < 0.8 and len(ids) >= 2:
            return {"axis": ax, "map": {ids[0]: ids[1]}, "strict": False, "inplace": ip}     # collision
        if c < 0.9:
            return {"axis": ax, "map": {ids[0]: "z"}, "strict": True, "inplace": ip}           # missing keys
        return {"axis": ax, "map": {i: i for i in ids}, "strict": True, "inplace": ip}
    if name == "edit_md_value":
        cands = [(a, k) for a in AXES for k in mutable_md_positions(t, a)]
        if not cands:
            return None

        def value_objects(u):
            return set(id(v) for a in AXES for m in (u.metadata(axis=a) or ()) for v in m.values()
                       if isinstance(v, (list, dict)))
        mine = value_objects(t)
        held = set(id(v) for kind, obj in W.ext if kind == "md" for m in obj if m for v in m.values()
                   if isinstance(v, (list, dict)))
        if (mine & held) or any(mine & value_objects(u) for u in W.live if u is not t):
            # the table shares metadata VALUES with another one (sort_order, partition, merge ... re-wrap the
            # mappings only, and so does the constructor with the caller's own dicts): an edit below the mapping
            # would show in both; not judged (see meta.d)
            return None
        a, k = rng.choice(cands)
        return {"axis": a, "pos": k}
    if name == "add_group_metadata":
        return {"axis": ax, "gmd": {"g%d" % rng.randint(0, 2): ["str", rng.choice(["u", "v"])]}}
    if name == "add_metadata":
        if not ids:
            return None
        return {"axis": ax, "md": {i: {"note": rng.choice(["p", "q"])} for i in ids if rng.random() < 0.6} or
                {ids[0]: {"note": "p"}}}
    if name == "del_metadata":
        return {"axis": rng.choice(AXES + ["whole"]), "keys": rng.choice([["note"], ["grp"], ["grp", "taxonomy"], None])}
    if name == "copy" or name == "transpose":
        return {}
    if name == "sort":
        return {"axis": ax, "rev": rng.random() < 0.5}
    if name == "sort_order":
        perm = list(ids)
        rng.shuffle(perm)
        c = rng.random()
        if c < 0.45:
            return {"axis": ax, "order": {"kind": "list", "ids": perm}}
        if c < 0.7:
            return {"axis": ax, "order": {"kind": "ext_new", "ids": perm}}
        cands = [(i, a) for i, u in enumerate(W.live) for a in AXES
                 if i != recv and sorted(map(str, u.ids(axis=a))) == sorted(ids)]
        if cands:
            i, a = rng.choice(cands)
            return {"axis": ax, "order": {"kind": "table", "i": i, "axis": a}}
        return {"axis": ax, "order": {"kind": "list", "ids": perm}}
    if name == "head":
        return {"n": rng.randint(1, 3), "m": rng.randint(1, 3)}
    if name == "subsample":
        if vc != "int":
            return None
        by_id = rng.random() < 0.3
        return {"axis": ax, "n": rng.choice([0, 1, 2, 3, 5]), "by_id": by_id,
                "with_replacement": (not by_id) and rng.random() < 0.3, "seed": rng.randint(0, 5)}
    if name == "generate_subsamples":
        if vc != "int":
            return None
        # depths below AND above some vector totals (a vector below the depth is dropped from each draw only)
        return {"axis": ax, "n": rng.choice([1, 2, 4, 8, 30]), "by_id": rng.random() < 0.3, "draws": rng.choice([1, 2])}
    if name == "ctor_from_table":
        return {"src": recv}
    if name == "partition":
        fn = rng.choice(["grp", "len", "first", "one", "none_some"])
        return {"axis": ax, "fn": fn, "remove_empty": rng.random() < 0.4,
                "ignore_none": fn == "none_some" or rng.random() < 0.2}
    if name == "collapse":
        if vc == "other":
            return None
        if rng.random() < 0.25:
            return {"axis": ax, "one_to_many": True, "mode": rng.choice(["add", "divide"]) if vc == "int" else "add",
                    "strict": rng.random() < 0.5, "icm": rng.random() < 0.7}
        return {"axis": ax, "fn": rng.choice(["grp", "len", "one"]), "norm": rng.random() < 0.5,
                "min_group_size": rng.choice([1, 1, 2]), "icm": rng.random() < 0.7}
    if name == "merge":
        cands = [i for i in range(len(W.live)) if i != recv] or [recv]
        c = rng.random()
        if c < 0.25:
            # a list of operands (pairwise chain or one aggregation); unions only
            k = min(len(cands), rng.choice([1, 2, 2, 3]))
            return {"others": rng.sample(cands, k), "ignore_md": rng.random() < 0.4}
        return {"other": rng.choice(cands), "sample": rng.choice(["union", "intersection"]),
                "observation": rng.choice(["union", "intersection"]), "ignore_md": rng.random() < 0.2}
    if name == "concat":
        cands = [i for i in range(len(W.live)) if i != recv]
        good = [i for i in cands if not (set(map(str, W.live[i].ids(axis=ax))) & set(ids))]
        pick = good if (good and rng.random() < 0.85) else cands
        k = rng.choice([0, 1, 1, 1, 2])
        others = []
        used = set(ids)
        rng.shuffle(pick)
        for i in pick:
            if len(others) >= k:
                break
            s = set(map(str, W.live[i].ids(axis=ax)))
            if pick is good and (s & used):
                continue
            used |= s
            others.append(i)
        return {"axis": ax, "others": others}
    if name == "align_to":
        cands = [i for i in range(len(W.live)) if i != recv] or [recv]
        good = [i for i in cands if any(sorted(map(str, W.live[i].ids(axis=a))) == sorted(map(str, t.ids(axis=a)))
                                        for a in AXES)]
        return {"other": rng.choice(good if good and rng.random() < 0.85 else cands),
                "align": rng.choice(["detect", "detect", "both", "sample", "observation"])}
    raise ValueError(name)


def do_named(W, name, recv, p, rng, do_poke=True):
    if p is None:
        return None
    if name == "sort_order" and p["order"]["kind"] == "ext_new":
        j = W.new_ext_ids(p["order"]["ids"])
        p = dict(p, order={"kind": "ext", "j": j})
    return api_call(W, name, recv, p, rng, do_poke)


def derived_spec(rng, spec, how):
    s = copy.deepcopy(spec)
    n, m = len(spec["obs"]), len(spec["samp"])
    s["rows"] = core.gen_grid(rng, n, m, rng.choice([0.4, 0.8, 1.0]), ("count",))
    if how == "same-ids":
        pass
    elif how == "permuted":
        po = list(range(n)); rng.shuffle(po)
        ps = list(range(m)); rng.shuffle(ps)
        s["obs"] = [spec["obs"][i] for i in po]
        s["samp"] = [spec["samp"][i] for i in ps]
    elif how == "disjoint-samples":
        s["samp"] = [x + "'" for x in spec["samp"]]
    elif how == "disjoint-observations":
        s["obs"] = [x + "'" for x in spec["obs"]]
    kinds = ["none", "text", "mixed"]
    s["omd"] = gen_md(rng, s["obs"], rng.choice(kinds))
    s["smd"] = gen_md(rng, s["samp"], rng.choice(kinds))
    s["type"] = rng.choice(core.TYPES)
    s["ogmd"], s["sgmd"] = gen_group_md(rng), gen_group_md(rng)
    return s


def build_pool(W, rng, holes=False, n_tables=None):
    spec = gen_spec(rng, holes=holes)
    share = rng.random() < 0.5
    osrc = ssrc = None
    if share:
        if rng.random() < 0.7 and spec["samp"]:
            ssrc = W.new_ext_ids(spec["samp"])
        if rng.random() < 0.5 and spec["obs"]:
            osrc = W.new_ext_ids(spec["obs"])
    W.construct(spec, rng.choice(CTOR_ROUTES), osrc, ssrc)
    k = n_tables if n_tables is not None else rng.choice([1, 2, 2, 3])
    for _ in range(k - 1):
        how = rng.choice(["same-ids", "permuted", "disjoint-samples", "disjoint-observations"])
        s2 = derived_spec(rng, spec, how)
        o2 = osrc if (how in ("same-ids", "disjoint-samples") and rng.random() < 0.7) else None
        c2 = ssrc if (how in ("same-ids", "disjoint-observations") and rng.random() < 0.7) else None
        W.construct(s2, rng.choice(CTOR_ROUTES), o2, c2)
    return spec


PREPS = ["none", "to_csc", "to_csr", "unsorted", "csc_unsorted", "filtered_csc", "read_samp", "read_obs"]


def prep_layout(W, recv, how, rng):
    """put a receiver into a given sparse layout through the API; returns the index of the receiver to use"""
    t = W.live[recv]
    if how == "none":
        return recv
    if how == "to_csc":
        W.call("transform", recv, {"axis": "sample", "fn": "ident", "inplace": True})
        return recv
    if how == "to_csr":
        W.call("transform", recv, {"axis": "observation", "fn": "ident", "inplace": True})
        return recv
    if how in ("unsorted", "csc_unsorted"):
        ids = [str(x) for x in t.ids()]
        idx, raised = W.call("sort_order", recv, {"axis": "sample", "order": {"kind": "list", "ids": ids[::-1]}})
        if raised or not idx:
            return recv
        r = idx[0]
        if how == "csc_unsorted" and not W.out_of_domain:
            W.call("transform", r, {"axis": "sample", "fn": "ident", "inplace": True})
        return r
    if how in ("read_samp", "read_obs"):
        # a read accessor leaves the matrix column- / row-major
        W.read(recv, rng.choice(["data_samp", "iter_samp"] if how == "read_samp" else ["data_obs", "iter_obs", "str"]), rng)
        return recv
    if how == "filtered_csc":
        ids = [str(x) for x in t.ids()]
        W.call("filter", recv, {"axis": "sample", "mode": "ids", "ids": ids, "inplace": True})
        return recv
    raise ValueError(how)


WEIGHTED = (INPLACE_OPS * 3) + NEW_OPS * 2 + MD_OPS


REFUSALS = ["filter-unknown-id", "filter-empties", "update_ids-collision", "update_ids-missing-key",
            "remove_empty-empties", "subsample-empties", "align_to-disjoint", "concat-overlap", "merge-no-overlap"]


def refused_history(rng, which):
    """operations that are refused: inputs unchanged, every table still coherent (run under profiles too)"""
    W = World()
    spec = {"obs": ["o1", "o2"], "samp": ["s1", "s2", "S2"], "rows": [[1.0, 0.0, 2.0], [0.0, 3.0, 0.0]],
            "omd": None, "smd": [{"grp": "a"}, {"grp": "b"}, {"grp": "a"}], "type": None}
    W.construct(spec, rng.choice(["csr", "csc", "dense"]), None, None)
    W.construct(dict(spec, obs=["p1", "p2"], samp=["u1", "u2", "u3"]), "csr", None, None)
    if rng.random() < 0.5:
        W.read(0, rng.choice(["data_samp", "data_obs"]), rng)
    for ip in (False, True):
        if which == "filter-unknown-id":
            for unk in core.tricky_unknown_ids(spec["samp"])[:6]:
                api_call(W, "filter", 0, {"axis": "sample", "mode": "ids", "ids": ["s1", unk], "inplace": ip}, rng)
        elif which == "filter-empties":
            api_call(W, "filter", 0, {"axis": rng.choice(AXES), "mode": "ids", "ids": [], "inplace": ip}, rng)
        elif which == "update_ids-collision":
            api_call(W, "update_ids", 0, {"axis": "sample", "map": {"s2": "S2"}, "strict": False, "inplace": ip}, rng)
        elif which == "update_ids-missing-key":
            api_call(W, "update_ids", 0, {"axis": "sample", "map": {"s2": "x"}, "strict": True, "inplace": ip}, rng)
        elif which == "remove_empty-empties":
            api_call(W, "transform", 0, {"axis": "sample", "fn": "zero", "inplace": False}, rng, do_poke=False)
            api_call(W, "remove_empty", len(W.live) - 1, {"axis": "whole", "inplace": ip}, rng)
        elif which == "subsample-empties":
            api_call(W, "subsample", 0, {"axis": "sample", "n": 50, "seed": 1}, rng)
        elif which == "align_to-disjoint":
            api_call(W, "align_to", 0, {"other": 1, "align": rng.choice(["detect", "both", "sample"])}, rng)
        elif which == "concat-overlap":
            api_call(W, "concat", 0, {"axis": "sample", "others": [0]}, rng)
        elif which == "merge-no-overlap":
            api_call(W, "merge", 0, {"other": 1, "sample": "intersection", "observation": "intersection"}, rng)
        for i in range(len(W.live)):
            W.read(i, rng.choice(READS), rng)
    return W


def many_operands_history(rng, k):
    """more than 8 (32) tables in one call: concat and merge with a long list of operands, all alive and observed"""
    W = World()
    obs = ["o1", "o2"]
    for j in range(k + 1):
        samp = ["s%d_%d" % (j, i) for i in range(2)]
        spec = {"obs": list(obs), "samp": samp, "rows": core.gen_grid(rng, 2, 2, 0.8, ("count",)),
                "omd": gen_md(rng, obs, "text") if j % 3 == 0 else None, "smd": None, "type": None}
        W.construct(spec, ["csr", "csc", "dense"][j % 3], None, None)
        if j % 4 == 1:
            W.read(j, "data_samp", rng)
    others = list(range(1, k + 1))
    api_call(W, "concat", 0, {"axis": "sample", "others": others}, rng)
    api_call(W, "merge", 0, {"others": others, "ignore_md": rng.random() < 0.5}, rng, do_poke=False)
    return W


def wide_history(rng, axis, n_axis=None):
    """>= 64 IDs on one axis (size-dependent fast paths), arguments not in axis order"""
    W = World()
    spec = core.wide_spec(rng, n_axis=n_axis, axis=axis, md=rng.random() < 0.5)
    ids = list(spec[KEY[axis]])
    src = W.new_ext_ids(ids) if rng.random() < 0.5 else None
    W.construct(spec, rng.choice(["csr", "csc", "dense"]), src if axis == "observation" else None,
                src if axis == "sample" else None)
    some = rng.sample(ids, rng.choice([3, 10, 40]))          # a small ID list, not in axis order
    perm = list(ids)
    rng.shuffle(perm)
    ops = [("filter", {"axis": axis, "mode": "ids", "ids": some, "invert": rng.random() < 0.3, "inplace": False}),
           ("sort_order", {"axis": axis, "order": {"kind": "list", "ids": perm}}),
           ("update_ids", {"axis": axis, "map": {i: i + "_renamed_much_longer" for i in some}, "strict": False,
                           "inplace": False}),
           ("transform", {"axis": axis, "fn": "thr", "inplace": False}),
           ("subsample", {"axis": axis, "n": 3, "seed": 1}),
           ("partition", {"axis": axis, "fn": "len"}),
           ("collapse", {"axis": axis, "fn": "len", "norm": False}),
           ("generate_subsamples", {"axis": axis, "n": 2, "draws": 1}),
           ("filter", {"axis": axis, "mode": "ids", "ids": some, "inplace": True}),
           ("norm", {"axis": other(axis), "inplace": True})]
    for name, p in rng.sample(ops[:8], 2) + [ops[8]] + ([ops[9]] if rng.random() < 0.5 else []):
        if len(W.live) > 5:
            break
        W.read(0, rng.choice(READS), rng)
        do_named(W, name, 0, p, rng)
    return W


def random_history(rng, quick, holes=False):
    W = World()
    build_pool(W, rng, holes=holes)
    if not W.live:
        return W
    n_calls = rng.randint(1, 4)
    done = 0
    guard = 0
    while done < n_calls and len(W.live) < MAX_LIVE and guard < 12 and not W.out_of_domain:
        guard += 1
        recv = rng.randrange(len(W.live)) if rng.random() < 0.6 else len(W.live) - 1
        if rng.random() < 0.3:
            recv = prep_layout(W, recv, rng.choice(PREPS), rng)
        name = rng.choice(WEIGHTED)
        p = gen_params(rng, W, name, recv)
        if p is None:
            continue
        asked = []
        if rng.random() < 0.4:
            # leave the receiver / an operand in whatever layout a few read accessors cache (random order)
            for _ in range(rng.randint(1, 2)):
                who = [recv] + [i for i in (p.get("others") or [p.get("other")]) if isinstance(i, int)]
                asked.append((rng.choice(who), rng.choice(READS)))
                W.read(asked[-1][0], asked[-1][1], rng)
        res = do_named(W, name, recv, p, rng)
        if (asked or rng.random() < 0.3) and not W.out_of_domain:
            # the same questions again right after the call (answers are judged against the current content,
            # whatever was remembered from the first time), then one more of each table involved
            for i, acc in asked[::-1]:
                W.read(i, acc, rng)
            for i in set([recv] + (res[0] if res else [])):
                if i < len(W.live):
                    W.read(i, rng.choice(READS), rng)
        done += 1
    return W


def systematic_templates(spec):
    """argument choices of every operation of the property's list, for a receiver with `spec`"""
    out = []
    for ax in AXES:
        ids = spec[KEY[ax]]
        for ip in (True, False):
            out.append(("filter", {"axis": ax, "mode": "ids", "ids": ids[:-1], "inplace": ip}))
            out.append(("filter", {"axis": ax, "mode": "ids", "ids": list(ids), "inplace": ip}))
            out.append(("filter", {"axis": ax, "mode": "fn", "fn": "sumgt", "arg": 3, "invert": True, "inplace": ip}))
            out.append(("transform", {"axis": ax, "fn": "x2", "inplace": ip}))
            out.append(("transform", {"axis": ax, "fn": "thr", "inplace": ip, "flag": "np"}))
            out.append(("transform", {"axis": ax, "fn": "ordw", "inplace": ip, "flag": "int"}))
            out.append(("transform", {"axis": ax, "fn": "writes_md", "inplace": ip, "positional": True}))
            out.append(("rankdata", {"axis": ax, "method": "ordinal", "inplace": ip, "flag": "int"}))
            out.append(("norm", {"axis": ax, "inplace": ip, "flag": "np" if ax == "sample" else "int"}))
            out.append(("rankdata", {"axis": ax, "inplace": ip}))
            out.append(("update_ids", {"axis": ax, "map": {i: i + "x" for i in ids}, "inplace": ip}))
            out.append(("remove_empty", {"axis": ax, "inplace": ip}))
        out.append(("transform", {"axis": ax, "fn": "raise2", "inplace": False}))
        out.append(("sort", {"axis": ax}))
        out.append(("sort_order", {"axis": ax, "order": {"kind": "list", "ids": ids[::-1]}}))
        out.append(("sort_order", {"axis": ax, "order": {"kind": "ext_new", "ids": ids[::-1]}}))
        out.append(("sort_order", {"axis": ax, "order": {"kind": "table", "i": 1, "axis": ax}}))
        out.append(("subsample", {"axis": ax, "n": 2, "seed": 1}))
        out.append(("subsample", {"axis": ax, "n": 1, "by_id": True, "seed": 2}))
        out.append(("subsample", {"axis": ax, "n": 3, "with_replacement": True, "seed": 4}))
        out.append(("generate_subsamples", {"axis": ax, "n": 4, "draws": 2}))
        out.append(("generate_subsamples", {"axis": ax, "n": 1, "by_id": True, "draws": 2}))
        out.append(("collapse", {"axis": ax, "one_to_many": True, "mode": "divide", "strict": False}))
        out.append(("partition", {"axis": ax, "fn": "none_some", "ignore_none": True}))
        out.append(("partition", {"axis": ax, "fn": "grp", "remove_empty": False}))
        out.append(("partition", {"axis": ax, "fn": "len", "remove_empty": True}))
        out.append(("collapse", {"axis": ax, "fn": "grp", "norm": False}))
        out.append(("collapse", {"axis": ax, "fn": "len", "norm": True}))
        out.append(("concat", {"axis": ax, "others": [2 if ax == "sample" else 3]}))
    for ip in (True, False):
        out.append(("pa", {"inplace": ip, "flag": "np"}))
        out.append(("pa", {"inplace": ip, "flag": "int", "positional": True}))
        out.append(("remove_empty", {"axis": "whole", "inplace": ip}))
    out.append(("copy", {}))
    out.append(("ctor_from_table", {"src": 0}))
    out.append(("merge", {"others": [1, 2], "ignore_md": False}))
    out.append(("merge", {"others": [1, 3], "ignore_md": True}))
    out.append(("transpose", {}))
    out.append(("head", {"n": 2, "m": 2}))
    for s in ("union", "intersection"):
        out.append(("merge", {"other": 1, "sample": s, "observation": s}))
    for al in ("detect", "both", "sample", "observation"):
        out.append(("align_to", {"other": 1, "align": al}))
    return out


def systematic_world(rng, route, share):
    """t0 = receiver, t1 = same IDs permuted, t2 = other samples, t3 = other observations"""
    W = World()
    spec = gen_spec(rng, n=3, m=3, density=0.8, plain_values=True)
    spec["omd"] = gen_md(rng, spec["obs"], rng.choice(["mixed", "ragged"]))
    spec["smd"] = gen_md(rng, spec["samp"], "text")
    osrc = ssrc = None
    if share:
        ssrc = W.new_ext_ids(spec["samp"])
        osrc = W.new_ext_ids(spec["obs"])
    W.construct(spec, route, osrc, ssrc)
    W.construct(derived_spec(rng, spec, "permuted"), "csr", None, None)
    W.construct(derived_spec(rng, spec, "disjoint-samples"), "dense", osrc, None)
    W.construct(derived_spec(rng, spec, "disjoint-observations"), "csc", None, ssrc)
    return W, spec


# ----------------------------------------------------------------------------- checking one history
def md_all_empty(s):
    """some axis carries a metadata tuple without any information: only empty entries, or no entry at all"""
    return any(s[k] is not None and all(not e for e in s[k]) for k in ("omd", "smd"))


def check(ctx, W, case, tags=()):
    """send a history to the driver; classify the answer"""
    calls = W.calls
    n_api = 0
    for k, c in enumerate(calls):
        if c["name"] in ("ext_ids", "construct"):
            ctx.count("ctor:" + c["args"].get("route", "ext_ids"))
            continue
        if c["name"] == "read":
            ctx.count("read:" + c["args"]["accessor"])
            continue
        n_api += 1
        before = calls[k - 1]["after"] if k else []
        rv = before[c["recv"]] if c["recv"] < len(before) else None
        nontrivial = (not c["raised"]) and rv is not None and len(rv["obs"]) * len(rv["samp"]) >= 2
        desc = {"name": c["name"], "inplace": c["inplace"], "args": W.recipe[k][2] if len(W.recipe[k]) > 2 else None,
                "recv": rv, "fmt": calls[k - 1]["facts"]["fmt"][c["recv"]] if rv is not None else None,
                "n_live": len(before)}
        ctx.case(desc, nontrivial=nontrivial)
        ctx.count("op=%s%s" % (c["name"], "" if c["name"] not in INPLACE_OPS else
                               (":inplace" if c["inplace"] else ":copy")))
        if c["raised"]:
            ctx.count("raised")
        if rv is not None:
            ctx.count("recv-layout=" + desc["fmt"])
        f = c["facts"]
        if c["inplace"] and not c["raised"]:
            ctx.count("inplace:buffer-%s" % ("kept" if c["recv"] in f["kept"] else "replaced"))
    ctx.count("histories")
    ctx.count("history-calls=%d" % min(n_api, 30) if n_api < 6 else "history-calls>=6")
    if any(x[0].startswith("e") or x[1].startswith("e") for c in calls for x in c["facts"]["id_share"]):
        ctx.count("history-with-caller-array-shared")
    if any(x[0][0] == "t" and x[1][0] == "t" and x[0].split(".")[0] != x[1].split(".")[0]
           for c in calls for x in c["facts"]["id_share"]):
        ctx.count("history-with-tables-sharing-an-ID-array")
    if W.md_value_shared:
        ctx.count("history-with-metadata-VALUE-objects-shared(not modelled, never written by the API)")
    for k, v in W.stats.items():
        ctx.count(k, v)
    if W.out_of_domain:
        ctx.count("history-ended:" + W.out_of_domain)
    for pr in W.problems:
        ctx.fail(case, "harness.sanity", list(tags) + [pr])
    for k, acc, bad in W.read_failures:
        ctx.fail(case, "read.answers-current-content", list(tags) + ["accessor=" + acc],
                 detail={"call": k, "what": bad, "recipe": W.recipe})
    for k, name in W.deep_share:
        ctx.fail(case, "new.deep-copy-shares-nested-metadata-values", list(tags) + ["op=" + name],
                 detail={"call": k, "recipe": W.recipe})
    for k, name, raised in W.incoherent:
        ctx.fail(case, "inplace.raised-leaves-receiver-incoherent", list(tags) + ["op=" + name, "raised=" + raised],
                 detail={"call": k, "recipe": W.recipe})
    req = {"calls": [{k: v for k, v in c.items() if k != "error"} for c in calls]}
    r = ctx.driver.ask(req)
    if not r["model_holds"]:
        ctx.diverge(case, "theorem model_holds contradicted by the driver", tags)
    if not r["holds"]:
        k, name, clause = r["clause"].split(":", 2)
        c = calls[int(k)]
        before = calls[int(k) - 1]["after"] if int(k) else []
        t = list(tags) + ["op=" + name]
        if c["inplace"] and c["recv"] < len(before) and md_all_empty(before[c["recv"]]):
            t.append("receiver-has-all-empty-metadata-tuple")
            rb, rr, rf = before[c["recv"]], (c["result_contents"] or [None])[0], c["ref"]
            # the two variants differ in nothing but "tuple of empty entries" versus None
            if rr is not None and rf is not None and all(
                    rr[f] == rf[f] or (f in ("omd", "smd") and rf[f] is None and all(not e for e in rr[f]))
                    for f in ("obs", "samp", "rows", "omd", "smd", "type")):
                t.append("differs-only-by-empty-tuple-vs-None")
        if c.get("error"):
            t.append("raised=" + c["error"])
        ctx.fail(case, clause, t, detail={"call": int(k), "recipe": W.recipe, "call_record": c,
                                          "before": before})
    elif not r["agree"]:
        ctx.diverge(case, r["diff"], tags, detail={"recipe": W.recipe, "model": r["model"]})
    return r


# ----------------------------------------------------------------------------- fixed corpus
def fixed_histories():
    """(name, function(World, rng)) — deterministic scenarios that run first"""
    out = []

    def empty_md_tuple(W, rng):
        # repaired defect (1a4b21f8): a metadata tuple whose entries are all empty (or the empty tuple of an
        # axis that lost all its IDs) was kept by in-place filter / add_metadata, while copy() made it None,
        # so transform(inplace=True) and transform(inplace=False) returned unequal tables
        spec = {"obs": ["o"], "samp": ["s1", "s2"], "rows": [[7.0, 5.0]], "omd": None,
                "smd": [{"a": "1"}, {}], "type": None}
        W.construct(spec, "dense", None, None)
        api_call(W, "filter", 0, {"axis": "sample", "mode": "ids", "ids": ["s2"], "inplace": True}, rng)
        api_call(W, "transform", 0, {"axis": "sample", "fn": "x2", "inplace": True}, rng)
        api_call(W, "update_ids", 0, {"axis": "sample", "map": {"s2": "t2"}, "strict": True, "inplace": True}, rng)
        W.construct(dict(spec, smd=[{"a": "1"}, {"a": "2"}]), "csr", None, None)
        api_call(W, "filter", 1, {"axis": "sample", "mode": "ids", "ids": [], "inplace": True}, rng)
        api_call(W, "pa", 1, {"inplace": True}, rng)
        api_call(W, "remove_empty", 1, {"axis": "whole", "inplace": True}, rng)
        W.construct(dict(spec, smd=None), "csc", None, None)
        W.call("add_metadata", 2, {"axis": "sample", "md": {"s1": {}}})
        api_call(W, "norm", 2, {"axis": "sample", "inplace": True}, rng)
    out.append(("all-empty-metadata-tuple", empty_md_tuple))

    def order_sensitive_on_unsorted(W, rng):
        # a user function that depends on the ORDER of the stored values (transform hands them over in storage
        # order) on receivers whose storage order is not the ID order: in place and copy must agree
        spec = {"obs": ["o1", "o2", "o3"], "samp": ["s1", "s2", "s3", "s4"],
                "rows": [[1.0, 2.0, 3.0, 4.0], [5.0, 0.0, 7.0, 9.0], [2.0, 8.0, 0.0, 6.0]],
                "omd": None, "smd": [{"grp": "a"}, {"grp": "b"}, {"grp": "a"}, {"grp": "b"}], "type": None}
        W.construct(spec, "dense", None, None)
        i1, _ = api_call(W, "sort_order", 0, {"axis": "sample", "order": {"kind": "list", "ids": ["s3", "s1", "s4", "s2"]}},
                         rng, do_poke=False)
        i2, _ = api_call(W, "sort_order", 0, {"axis": "observation", "order": {"kind": "list", "ids": ["o2", "o3", "o1"]}},
                         rng, do_poke=False)
        W.call("transform", i2[0], {"axis": "sample", "fn": "ident", "inplace": True})     # CSC, rows out of order
        for r, ax in ((i1[0], "observation"), (i2[0], "sample")):
            api_call(W, "transform", r, {"axis": ax, "fn": "ordw", "inplace": False, "flag": "np"}, rng)
            api_call(W, "rankdata", r, {"axis": ax, "method": "ordinal", "inplace": False, "flag": "int"}, rng)
            api_call(W, "transform", r, {"axis": ax, "fn": "ordw", "inplace": True}, rng)
            api_call(W, "rankdata", r, {"axis": ax, "method": "ordinal", "inplace": True, "positional": True}, rng)
    out.append(("order-sensitive-on-unsorted", order_sensitive_on_unsorted))

    def wanted_layout_already_there(W, rng):
        # seeded changes C12-kernel-on-self-when-already-csc / C12-generate-subsamples-filters-inplace /
        # C07-transpose-shares-buffer-when-csc: the input is ALREADY in the layout the operation wants, left there
        # by a read accessor or by an earlier in-place call; the operation must still work on its own copy
        spec = {"obs": ["o1", "o2", "o3"], "samp": ["s1", "s2", "s3"],
                "rows": [[5.0, 1.0, 0.0], [4.0, 0.0, 2.0], [3.0, 1.0, 6.0]],
                "omd": [{"grp": "a"}, {"grp": "b"}, {"grp": "a"}], "smd": None, "type": "OTU table"}
        W.construct(spec, "dense", None, None)
        for prep in ("data_samp", "iter_obs", "iter_samp"):
            W.read(0, prep, rng)
            ax = "sample" if prep.endswith("samp") else "observation"
            api_call(W, "subsample", 0, {"axis": ax, "n": 4, "seed": 1}, rng)
            api_call(W, "generate_subsamples", 0, {"axis": ax, "n": 4, "draws": 2}, rng, do_poke=False)
            for acc in ("nnz", "data_obs", "sum"):
                W.read(0, acc, rng)
            W.read(0, prep, rng)
            api_call(W, "transpose", 0, {}, rng) if prep == "data_samp" else None
            api_call(W, "pa", 0, {"inplace": False}, rng) if prep == "iter_obs" else None
        W.call("transform", 0, {"axis": "sample", "fn": "ident", "inplace": True})
        api_call(W, "generate_subsamples", 0, {"axis": "sample", "n": 7, "draws": 1}, rng)
    out.append(("wanted-layout-already-there", wanted_layout_already_there))

    def read_change_read(W, rng):
        # identity-keyed caches (seeded C16-data-memo-cache, C19-nnz-cached-per-matrix-object): ask, change in
        # place keeping the same matrix / ID array / dict objects, ask again
        spec = {"obs": ["o1", "o2"], "samp": ["s1", "s2", "s3"], "rows": [[1.0, 2.0, 0.0], [0.0, 4.0, 6.0]],
                "omd": [{"grp": "a", "k": "1"}, {"grp": "b", "k": "2"}], "smd": [{"grp": "a"}, {"grp": "b"}, {"grp": "a"}],
                "type": None}
        W.construct(spec, "csr", None, None)
        changes = [("transform", {"fn": "thr", "inplace": True}), ("transform", {"fn": "x2", "inplace": True}),
                   ("norm", {"inplace": True}), ("pa", {"inplace": True}),
                   ("update_ids", {"axis": "sample", "map": {"s1": "t1"}, "strict": False, "inplace": True}),
                   ("del_metadata", {"axis": "observation", "keys": ["k"]}),
                   ("add_metadata", {"axis": "sample", "md": {"s2": {"grp": "z"}}})]
        for n, acc in enumerate(READS + READS):
            t = len(W.live)
            W.construct(spec, rng.choice(["csr", "csc", "dense"]), None, None)
            W.read(t, acc, rng)
            # change in place along the axis of the layout the table is in NOW: same matrix object afterwards
            lay = "sample" if W.live[t].matrix_data.getformat() == "csc" else "observation"
            name, p = changes[(n * 3 + len(acc)) % len(changes)] if n >= len(READS) else changes[n % 2]
            p = dict(p)
            if name in ("transform", "norm"):
                p["axis"] = lay
            if name == "pa" and lay != "sample":
                name, p = "transform", {"axis": lay, "fn": "thr", "inplace": True}
            api_call(W, name, t, p, rng)
            W.read(t, acc, rng)          # the same question first ...
            for other_acc in rng.sample(READS, 3):   # ... then others, in random order
                W.read(t, other_acc, rng)
    out.append(("read-change-read", read_change_read))

    def shared_arrays(W, rng):
        # two tables built from the same caller-held ID arrays; views handed on by transpose / sort_order /
        # partition / align_to; then in-place edits of every table
        spec = {"obs": ["o1", "o2", "o3"], "samp": ["s1", "s2", "s3"],
                "rows": [[1.0, 0.0, 2.0], [0.0, 3.0, 4.0], [5.0, 6.0, 0.0]],
                "omd": [{"grp": "a"}, {"grp": "b"}, {"grp": "a"}], "smd": None, "type": "OTU table"}
        s = W.new_ext_ids(spec["samp"])
        o = W.new_ext_ids(spec["obs"])
        W.construct(spec, "csr", o, s)
        W.construct(dict(spec, rows=[[7.0, 8.0, 9.0], [1.0, 1.0, 0.0], [0.0, 2.0, 2.0]]), "dense", o, s)
        api_call(W, "transpose", 0, {}, rng)
        api_call(W, "sort_order", 0, {"axis": "sample", "order": {"kind": "table", "i": 1, "axis": "sample"}}, rng)
        api_call(W, "partition", 1, {"axis": "observation", "fn": "grp"}, rng)
        api_call(W, "align_to", 0, {"other": 1, "align": "both"}, rng)
        for i in (0, 1):
            api_call(W, "update_ids", i, {"axis": "sample", "map": {"s1": "S-one"}, "strict": False, "inplace": True}, rng)
            api_call(W, "filter", i, {"axis": "observation", "mode": "ids", "ids": ["o1", "o3"], "inplace": True}, rng)
            api_call(W, "norm", i, {"axis": "sample", "inplace": True}, rng)
    out.append(("shared-id-arrays", shared_arrays))

    def layout_matches(W, rng):
        # the receiver already has the layout the kernel asks for: tocsr()/tocsc() return the same object
        spec = {"obs": ["a", "b"], "samp": ["x", "y", "z"], "rows": [[1.0, 2.0, 0.0], [0.0, 4.0, 6.0]],
                "omd": None, "smd": [{"grp": "a"}, {"grp": "b"}, {"grp": "a"}], "type": None}
        W.construct(spec, "csr", None, None)
        api_call(W, "transform", 0, {"axis": "observation", "fn": "x2", "inplace": False}, rng)
        api_call(W, "filter", 0, {"axis": "observation", "mode": "fn", "fn": "sumgt", "arg": 3, "inplace": False}, rng)
        W.call("transform", 0, {"axis": "sample", "fn": "ident", "inplace": True})      # now CSC
        api_call(W, "transform", 0, {"axis": "sample", "fn": "thr", "inplace": False}, rng)
        api_call(W, "filter", 0, {"axis": "sample", "mode": "ids", "ids": ["x", "z"], "inplace": False}, rng)
        api_call(W, "subsample", 0, {"axis": "sample", "n": 2, "seed": 3}, rng)
        api_call(W, "remove_empty", 0, {"axis": "whole", "inplace": False}, rng)
        api_call(W, "filter", 0, {"axis": "sample", "mode": "ids", "ids": ["x", "y", "z"], "inplace": False}, rng)
    out.append(("layout-already-matches", layout_matches))

    def unsorted_predicate(W, rng):
        # repaired C08 defect: sort_indices() before the predicate must act on the copy, not on the receiver
        spec = {"obs": ["o1", "o2", "o3"], "samp": ["s1", "s2", "s3"],
                "rows": [[1.0, 2.0, 3.0], [4.0, 0.0, 6.0], [0.0, 8.0, 9.0]], "omd": None, "smd": None, "type": None}
        W.construct(spec, "dense", None, None)
        idx, _ = api_call(W, "sort_order", 0, {"axis": "sample", "order": {"kind": "list", "ids": ["s3", "s1", "s2"]}},
                          rng, do_poke=False)
        r = idx[0]
        api_call(W, "filter", r, {"axis": "observation", "mode": "fn", "fn": "sumgt", "arg": 10, "inplace": False}, rng)
        api_call(W, "filter", r, {"axis": "observation", "mode": "fn", "fn": "sumgt", "arg": 10, "inplace": True}, rng)
    out.append(("predicate-on-unsorted-receiver", unsorted_predicate))

    def stored_zeros(W, rng):
        # repaired defect (stored zeros): caller's matrix with explicit zeros must keep them; the table drops them
        spec = {"obs": ["a", "b"], "samp": ["x", "y"], "rows": [[0.0, 2.0], [3.0, 0.0]], "omd": None, "smd": None,
                "type": None}
        W.construct(spec, "csr_zeros", None, None)
        api_call(W, "transform", 0, {"axis": "sample", "fn": "zero", "inplace": False}, rng)
        api_call(W, "subsample", 0, {"axis": "observation", "n": 1, "seed": 0}, rng)
        api_call(W, "rankdata", 0, {"axis": "sample", "inplace": True}, rng)
    out.append(("stored-zeros-in-caller-matrix", stored_zeros))

    return out


# ----------------------------------------------------------------------------- entry points
def run_recipe(kind, seed, params):
    rng = random.Random(seed)
    if kind == "fixed":
        W = World()
        dict(fixed_histories())[params["name"]](W, rng)
        return W
    if kind == "refused":
        return refused_history(rng, params["case"])
    if kind == "systematic":
        W, spec = systematic_world(rng, params["route"], params["share"])
        name, p = systematic_templates(spec)[params["template"]]
        if not W.live:
            return W
        recv = prep_layout(W, 0, params["prep"], rng)
        p = copy.deepcopy(p)
        if name == "ctor_from_table":
            p["src"] = recv
        do_named(W, name, recv, p, rng)
        for i in range(len(W.live)):
            W.read(i, rng.choice(READS), rng)
        return W
    if kind == "many":
        return many_operands_history(rng, params["k"])
    if kind == "wide":
        return wide_history(rng, params["axis"], params.get("n_axis"))
    if kind == "random":
        return random_history(rng, params.get("quick", True), holes=params.get("holes", False))
    raise ValueError(kind)


def run_under_profile(kind, seed, params):
    """run a recipe, possibly under a non-default error profile (params['profile'] = reaction to 'empty')"""
    prof = params.get("profile")
    if not prof:
        return run_recipe(kind, seed, params)
    import warnings
    import biom.err as E
    import io
    old_cb = E.geterrcall("empty")
    old_out = E.stdout
    with warnings.catch_warnings():
        warnings.simplefilter("ignore")
        E.seterrcall("empty", lambda item: None)
        E.stdout = io.StringIO()
        try:
            with E.errstate(empty=prof):
                return run_recipe(kind, seed, params)
        finally:
            E.seterrcall("empty", old_cb)
            E.stdout = old_out


def run_case(ctx, kind, seed, params, impl_name, mods, tags=()):
    case = {"kind": kind, "seed": seed, "params": params, "kernels": impl_name}
    if mods is None:
        W = run_under_profile(kind, seed, params)
    else:
        with kernels.use_kernels(mods):
            W = run_under_profile(kind, seed, params)
    if params.get("profile"):
        ctx.count("history-under-profile:empty=" + params["profile"])
    return check(ctx, W, case, list(tags) + [kind, "kernels=" + impl_name])


def run(ctx):
    ctx.rule = ("a case = one application of an API operation (name, arguments, in-place flag) to a receiver "
                "(content, sparse layout, number of live tables) inside a history; histories: fixed scenarios, "
                "systematic (constructor route x layout preparation x every operation/argument template x axis x "
                "in-place flag, with argument tables alive) and random (pool of 1-3 tables built from lists or "
                "shared caller arrays, 1-4 calls over the property's operation list, each new table poked by 5 "
                "in-place calls); non-trivial = call did not raise and the receiver has at least two cells")
    ctx.assumptions = ["matrix values are small counts, so every sum a transformation computes is exact and the "
                       "in-place run and its non-in-place twin cannot differ by rounding order"]
    ctx.trusted = ["np.shares_memory / id() as the ground truth for aliasing of the real objects",
                   "the non-in-place twin of an in-place call runs on an equal table built by the constructor from "
                   "the receiver's snapshot (on the receiver itself when the constructor cannot reproduce its state)"]
    impls = kernels.kernel_impls()
    impls = [(n, m) for n, m in impls if m is not None]
    compiled = impls[0]
    rendered = impls[1] if len(impls) > 1 else None
    if rendered is None:
        ctx.notes.append("pyx rendering unavailable; only the compiled kernels were run")
    # fixed corpus first, under both kernel implementations
    for name, _ in fixed_histories():
        for impl in impls:
            run_case(ctx, "fixed", 1, {"name": name}, impl[0], impl[1], tags=["fixed:" + name])
    # systematic
    quick = ctx.quick()
    budget = 33 if quick else 540
    routes = ["csr", "dense"] if quick else CTOR_ROUTES
    preps = PREPS
    n_templates = len(systematic_templates({"obs": ["a", "b", "c"], "samp": ["x", "y", "z"]}))
    k = 0
    for route in routes:
        for prep in preps:
            for ti in range(n_templates):
                k += 1
                if not ctx.mine(k) or (quick and (k % 3 != ctx.seed % 3)):
                    continue
                if ctx.time_left(budget * 0.55) < 0:
                    break
                impl = rendered if (rendered and k % 4 == 0) else compiled
                run_case(ctx, "systematic", ctx.rng.getrandbits(40),
                         {"route": route, "share": k % 2 == 0, "prep": prep, "template": ti}, impl[0], impl[1])
    # refused operations, under the default and under other error profiles
    for j, which in enumerate(REFUSALS):
        for prof in ([None, "raise"] if quick else [None, "raise", "warn", "call", "print"]):
            params = {"case": which}
            if prof:
                params["profile"] = prof
            run_case(ctx, "refused", ctx.rng.getrandbits(40), params, compiled[0], compiled[1])
    # operand-count thresholds
    for k in ([9] if quick else [9, 33]):
        run_case(ctx, "many", ctx.rng.getrandbits(40), {"k": k}, compiled[0], compiled[1])
    # a few large tables (size thresholds)
    for j in range(4 if quick else 24):
        run_case(ctx, "wide", ctx.rng.getrandbits(40), {"axis": AXES[j % 2]}, compiled[0], compiled[1])
    for j in range(1 if quick else 4):
        run_case(ctx, "wide", ctx.rng.getrandbits(40), {"axis": AXES[(j + ctx.seed) % 2], "n_axis": 520 + 7 * j},
                 compiled[0], compiled[1])
    # random histories; a share of them under a non-default error profile
    i = 0
    while ctx.time_left(budget) > 0:
        i += 1
        impl = rendered if (rendered and i % 4 == 0) else compiled
        params = {"quick": quick, "holes": i % 10 == 0}
        if i % 7 == 3:
            params["profile"] = ["raise", "warn", "call", "print"][(i // 7) % 4]
        run_case(ctx, "random", ctx.rng.getrandbits(48), params, impl[0], impl[1])


def replay(ctx, rec):
    case = rec["case"]
    impls = dict((n, m) for n, m in kernels.kernel_impls() if m is not None)
    mods = impls.get(case.get("kernels", "compiled"))
    run_case(ctx, case["kind"], case["seed"], case["params"], case.get("kernels", "compiled"), mods, tags=["replay"])
