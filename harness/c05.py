"""C05 — coherence after every history.

Histories over the public operation alphabet are run on real tables.  After EVERY step the table
is observed through all its accessors (ids, index, exists, metadata, shape, data, get_value_by_ids,
iter, iter_pairwise, nonzero, sums, nnz, density, matrix of a deep copy); Lean evaluates
`C05.holds` on that observation.  In parallel every step is translated into glue-level model
operations — the constructor call that created the result (arguments captured by wrapping
Table.__init__), in-place filter kernel calls (mask captured by wrapping biom.table._filter),
content changes (captured by wrapping the transform/subsample kernels), update_ids, add/del
metadata — and the model state's own observation is compared with the real one.
"""
import copy
import itertools

import numpy as np

from . import core, kernels

PROBES = [["observation", "__nope__"], ["sample", "__nope__"], ["observation", ""], ["sample", " "]]


# ------------------------------------------------------------------ event capture
class Capture:
    def __init__(self):
        import biom.table as T
        self.T = T
        self.events = []
        self.impl = None
        self._orig_init = T.Table.__init__
        cap = self

        def init(self_, data, observation_ids, sample_ids, observation_metadata=None, sample_metadata=None,
                 *a, **kw):
            ev = {"kind": "ctor", "obj": id(self_),
                  "obs_ids": [str(x) for x in observation_ids], "samp_ids": [str(x) for x in sample_ids],
                  "omd": _canon_md_arg(observation_metadata), "smd": _canon_md_arg(sample_metadata),
                  "validate": kw.get("validate", True),
                  "obs_index": _dict_arg(kw.get("observation_index")), "samp_index": _dict_arg(kw.get("sample_index"))}
            try:
                cap._orig_init(self_, data, observation_ids, sample_ids, observation_metadata, sample_metadata,
                               *a, **kw)
            except Exception as e:
                ev["error"] = core.err_name(e)
                cap.events.append(ev)
                raise
            m = self_._data
            ev["nrows"], ev["ncols"] = int(m.shape[0]), int(m.shape[1])
            ev["rows"] = dense_rows(m)
            cap.events.append(ev)
        self._init = init

    def install(self, mods):
        T = self.T
        self.saved = (T._filter, T._transform, T.subsample)
        cap = self
        f_filter, f_transform, f_sub = mods["_filter"]._filter, mods["_transform"]._transform, mods["_subsample"].subsample

        def w_filter(arr, ids, metadata, index, ids_to_keep, axis, invert):
            before = [str(x) for x in ids]
            r = f_filter(arr, ids, metadata, index, ids_to_keep, axis, invert)
            kept = set(str(x) for x in r[1])
            cap.events.append({"kind": "filter", "axis": "observation" if axis == 0 else "sample",
                               "mask": [b in kept for b in before]})
            return r

        def w_transform(arr, ids, metadata, function, axis):
            r = f_transform(arr, ids, metadata, function, axis)
            cap.events.append({"kind": "content", "rows": dense_rows(arr)})
            return r

        def w_sub(arr, n, with_replacement, rng):
            r = f_sub(arr, n, with_replacement, rng)
            cap.events.append({"kind": "content", "rows": dense_rows(arr)})
            return r
        T._filter, T._transform, T.subsample = w_filter, w_transform, w_sub
        T.Table.__init__ = self._init

    def uninstall(self):
        T = self.T
        T._filter, T._transform, T.subsample = self.saved
        T.Table.__init__ = self._orig_init


def _canon_md_arg(md):
    if md is None:
        return None
    out = []
    for m in md:
        if m is None or isinstance(m, dict):
            out.append(core.canon_md_entry(m))
        else:
            out.append({"__not_a_mapping__": repr(m)})
    return out


def _dict_arg(d):
    if d is None:
        return None
    return [[str(k), int(v)] for k, v in d.items()]


def dense_rows(m):
    if m.shape[0] == 0:
        return []
    if m.shape[1] == 0:
        return [[] for _ in range(m.shape[0])]
    a = m.toarray()
    return [[core.frac(x) for x in row] for row in a]


# ------------------------------------------------------------------ observation of a real table
def observe(t, probes=None, order_rng=None):
    probes = PROBES if probes is None else probes
    obs_ids = [str(x) for x in t.ids(axis="observation")]
    samp_ids = [str(x) for x in t.ids()]
    n, m = len(obs_ids), len(samp_ids)
    dc = copy.deepcopy(t)
    dense = dense_rows(dc.matrix_data)

    def idx(i, ax):
        try:
            return int(t.index(i, ax))
        except Exception:
            return None
    # the same facts have several public spellings (shape / length(axis); iter(axis='sample') / iter(table)): a share of the
    # observations asks the other spelling, and the Lean predicate judges whichever was asked
    alt = order_rng is not None and order_rng.random() < 0.5
    shape = [int(t.length("observation")), int(t.length("sample"))] if alt else [int(t.shape[0]), int(t.shape[1])]
    o = {"obs_ids": obs_ids, "samp_ids": samp_ids, "shape": shape,
         "index_obs": [idx(i, "observation") for i in t.ids(axis="observation")],
         "index_samp": [idx(i, "sample") for i in t.ids()],
         "exists_obs": [bool(t.exists(i, axis="observation")) for i in t.ids(axis="observation")],
         "exists_samp": [bool(t.exists(i)) for i in t.ids()],
         "probes_unknown": [], "omd_len": None, "smd_len": None, "dense": dense}
    for ax, p in probes:
        if p in (obs_ids if ax == "observation" else samp_ids):
            o["probes_unknown"].append(True)
            continue
        unknown = False
        try:
            t.index(p, ax)
        except Exception as e:
            unknown = type(e).__name__ == "UnknownIDError"
        o["probes_unknown"].append(bool(unknown and not t.exists(p, axis=ax)))
    md = t.metadata(axis="observation")
    o["omd_len"] = None if md is None else len(md)
    md = t.metadata(axis="sample")
    o["smd_len"] = None if md is None else len(md)
    nonempty = n > 0 and m > 0
    fr = lambda v: [core.frac(x) for x in np.asarray(v).reshape(-1)]
    errs = []

    def guard(key, default, f):
        try:
            o[key] = f()
        except Exception as e:  # an accessor that raises is part of the observation
            o[key] = default
            errs.append("%s: %s" % (key, type(e).__name__))
    for k in ("data_obs", "data_samp", "cells", "iter_obs", "iter_samp", "pairwise_obs", "nonzero"):
        o[k] = []
    # the accessors are asked in a different order at every observation: what one accessor leaves behind
    # (layout switches, caches) must not change what a later one reports
    plan = []
    if nonempty:
        plan += [
            ("data_obs", [], lambda: [fr(t.data(i, axis="observation")) for i in t.ids(axis="observation")]),
            ("data_samp", [], lambda: [fr(t.data(i, axis="sample")) for i in t.ids()]),
            ("cells", [], lambda: [[core.frac(t.get_value_by_ids(a, b)) for b in t.ids()]
                                   for a in t.ids(axis="observation")]),
            ("iter_obs", [], lambda: [[str(i), fr(v)] for v, i, _ in t.iter(axis="observation")]),
            ("iter_samp", [], lambda: [[str(i), fr(v)] for v, i, _ in (iter(t) if alt else t.iter(axis="sample"))]),
            ("pairwise_obs", [], lambda: [[[str(a[1]), fr(a[0])], [str(b[1]), fr(b[0])]]
                                          for a, b in t.iter_pairwise(axis="observation")]),
            ("nonzero", [], lambda: [[str(a), str(b)] for a, b in t.nonzero()]),
        ]
    plan += [
        ("sum_whole", "0", lambda: core.frac(float(t.sum()))),
        ("sum_obs", [], lambda: fr(t.sum("observation")) if n > 0 else []),
        ("sum_samp", [], lambda: fr(t.sum("sample")) if m > 0 else []),
        ("nzc_obs", [], lambda: [int(x) for x in t.nonzero_counts("observation")] if n > 0 else []),
        ("nzc_samp", [], lambda: [int(x) for x in t.nonzero_counts("sample")] if m > 0 else []),
        ("nnz", 0, lambda: int(t.nnz)),
        ("density", "0", lambda: core.frac(t.get_table_density())),
    ]
    if order_rng is not None:
        order_rng.shuffle(plan)
    for key, default, f in plan:
        guard(key, default, f)
    o["accessor_errors"] = errs
    return o


def md_obs(t):
    return {"omd": core.canon_md(t.metadata(axis="observation")), "smd": core.canon_md(t.metadata(axis="sample"))}


# ------------------------------------------------------------------ operation templates
def _mk_other(rng, t, mode):
    """a second table for merge / concat / align_to"""
    from biom import Table
    obs = [str(x) for x in t.ids(axis="observation")]
    samp = [str(x) for x in t.ids()]
    if mode == "align":
        o2, s2 = list(obs), list(samp)
        rng.shuffle(o2); rng.shuffle(s2)
    elif mode == "concat":
        o2, s2 = list(obs), ["zz%d" % i for i in range(rng.randint(1, 2))]
        rng.shuffle(o2)
        if rng.random() < 0.5 and len(o2) > 1:
            o2 = o2[:-1] + ["newO"]
    else:  # merge
        o2 = obs[:max(1, len(obs) - 1)] + ["mO"]
        s2 = samp[1:] + ["mS"] if len(samp) > 1 else samp + ["mS"]
    arr = np.array([[float(rng.choice([0, 0, 1, 2, 3])) for _ in s2] for _ in o2]).reshape(len(o2), len(s2))
    return Table(arr, o2, s2)


def op_templates():
    """name -> function(table, rng) -> (result table, extra model ops, inplace?)"""
    T = {}
    AX = ("observation", "sample")

    def ids(t, ax):
        return [str(x) for x in t.ids(axis=ax)]

    for ax in AX:
        for inplace in (True, False):
            def f_half(t, rng, ax=ax, inplace=inplace):
                i = ids(t, ax)
                return t.filter(i[:max(1, len(i) // 2)], axis=ax, inplace=inplace), [], inplace
            T["filter-first-half-%s-%s" % (ax, inplace)] = f_half

            def f_inv(t, rng, ax=ax, inplace=inplace):
                i = ids(t, ax)
                return t.filter(set(i[:1]), axis=ax, invert=True, inplace=inplace), [], inplace
            T["filter-invert-first-%s-%s" % (ax, inplace)] = f_inv

            # an explicit ID collection in ANOTHER order than the table's, and one naming an ID twice
            def f_revsub(t, rng, ax=ax, inplace=inplace):
                i = ids(t, ax)
                keep = list(reversed(i[1:])) if len(i) > 2 else list(reversed(i))
                return t.filter(keep, axis=ax, inplace=inplace), [], inplace
            T["filter-reversed-subset-%s-%s" % (ax, inplace)] = f_revsub

            def f_twice(t, rng, ax=ax, inplace=inplace):
                i = ids(t, ax)
                keep = [i[-1], i[0], i[-1]] if len(i) > 1 else list(i) * 2
                return t.filter(np.array(keep, dtype=object), axis=ax, inplace=inplace), [], inplace
            T["filter-id-named-twice-%s-%s" % (ax, inplace)] = f_twice

            def f_pred(t, rng, ax=ax, inplace=inplace):
                return t.filter(lambda v, i, m: v.sum() > 1, axis=ax, inplace=inplace), [], inplace
            T["filter-pred-%s-%s" % (ax, inplace)] = f_pred

            def f_upd(t, rng, ax=ax, inplace=inplace):
                i = ids(t, ax)
                m = {x: x + "_renamed_long" for x in i}
                r = t.update_ids(m, axis=ax, strict=True, inplace=inplace)
                return r, [{"op": "update_ids", "axis": ax, "id_map": [[a, b] for a, b in m.items()], "strict": True}], inplace
            T["update-ids-longer-%s-%s" % (ax, inplace)] = f_upd

            def f_upd2(t, rng, ax=ax, inplace=inplace):
                i = ids(t, ax)
                m = {i[0]: "q"} if i else {"x": "y"}
                r = t.update_ids(m, axis=ax, strict=False, inplace=inplace)
                return r, [{"op": "update_ids", "axis": ax, "id_map": [[a, b] for a, b in m.items()], "strict": False}], inplace
            T["update-ids-partial-shorter-%s-%s" % (ax, inplace)] = f_upd2

            def f_upd3(t, rng, ax=ax, inplace=inplace):
                i = ids(t, ax)
                m = {x: "same" for x in i}
                r = t.update_ids(m, axis=ax, strict=True, inplace=inplace)  # collides when >1 id
                return r, [{"op": "update_ids", "axis": ax, "id_map": [[a, b] for a, b in m.items()], "strict": True}], inplace
            T["update-ids-colliding-%s-%s" % (ax, inplace)] = f_upd3

        for inplace in (True, False):
            # renamings INSIDE the current label set: a swap and a rotation (an ID takes the name a later ID gives up)
            def f_swap(t, rng, ax=ax, inplace=inplace):
                i = ids(t, ax)
                m = {i[0]: i[-1], i[-1]: i[0]} if len(i) > 1 else {"x": "y"}
                r = t.update_ids(m, axis=ax, strict=False, inplace=inplace)
                return r, [{"op": "update_ids", "axis": ax, "id_map": [[a, b] for a, b in m.items()], "strict": False}], inplace
            T["update-ids-swap-%s-%s" % (ax, inplace)] = f_swap

            def f_rot(t, rng, ax=ax, inplace=inplace):
                i = ids(t, ax)
                m = {i[k]: i[(k + 1) % len(i)] for k in range(len(i))} if len(i) > 2 else {"x": "y"}
                r = t.update_ids(m, axis=ax, strict=True, inplace=inplace)
                return r, [{"op": "update_ids", "axis": ax, "id_map": [[a, b] for a, b in m.items()], "strict": True}], inplace
            T["update-ids-rotate-%s-%s" % (ax, inplace)] = f_rot

        for inplace in (True, False):
            def f_upd4(t, rng, ax=ax, inplace=inplace):
                i = ids(t, ax)
                # rename the first id onto another id that keeps its name: must be refused, table untouched
                m = {i[0]: i[-1]} if len(i) > 1 else {"x": "y"}
                r = t.update_ids(m, axis=ax, strict=False, inplace=inplace)
                return r, [{"op": "update_ids", "axis": ax, "id_map": [[a, b] for a, b in m.items()], "strict": False}], inplace
            T["update-ids-onto-existing-%s-%s" % (ax, inplace)] = f_upd4

        def f_sort(t, rng, ax=ax):
            return t.sort(axis=ax), [], False
        T["sort-%s" % ax] = f_sort

        def f_rev(t, rng, ax=ax):
            return t.sort_order(list(reversed(ids(t, ax))), axis=ax), [], False
        T["sort-order-reversed-%s" % ax] = f_rev

        def f_addmd(t, rng, ax=ax):
            i = ids(t, ax)
            mp = {i[0]: {"newkey": "v0", "grp": "z"}, "not-there": {"newkey": "x"}} if i else {}
            t.add_metadata(mp, axis=ax)
            return t, [{"op": "add_md", "axis": ax,
                        "mapping": [[k, core.canon_md_entry(v)] for k, v in mp.items()]}], True
        T["add-metadata-%s" % ax] = f_addmd

        def f_sub(t, rng, ax=ax):
            return t.subsample(2, axis=ax, seed=rng.randint(0, 5)), [], False
        T["subsample-2-%s" % ax] = f_sub

        def f_subid(t, rng, ax=ax):
            return t.subsample(2, axis=ax, by_id=True, seed=rng.randint(0, 5)), [], False
        T["subsample-byid-2-%s" % ax] = f_subid

        def f_coll(t, rng, ax=ax):
            return t.collapse(lambda i, m: i[-1], axis=ax, norm=False), [], False
        T["collapse-lastchar-%s" % ax] = f_coll

        def f_coll2(t, rng, ax=ax):
            return t.collapse(lambda i, m: "g", axis=ax, norm=True, min_group_size=2), [], False
        T["collapse-const-norm-min2-%s" % ax] = f_coll2

        def f_part(t, rng, ax=ax):
            parts = list(t.partition(lambda i, m: i[-1] > "b", axis=ax))
            return parts[-1][1], [], False
        T["partition-last-%s" % ax] = f_part

        # the mapping forms of partition: group -> [ids] (a list naming an ID twice, group labels that are IDs) and id -> group
        def f_part3(t, rng, ax=ax):
            i = ids(t, ax)
            if len(i) < 2:
                return t, [], True
            mapping = {i[0]: [i[0], i[-1], i[0]], "rest": list(i[1:-1])} if len(i) > 2 else {i[0]: [i[0], i[0]], i[1]: [i[1]]}
            parts = list(t.partition(mapping, axis=ax))
            return parts[0][1], [], False
        T["partition-group-lists-%s" % ax] = f_part3

        def f_part4(t, rng, ax=ax):
            i = ids(t, ax)
            mapping = {x: ("g%d" % (k % 2)) for k, x in enumerate(i)}
            parts = list(t.partition(mapping, axis=ax))
            return parts[-1][1], [], False
        T["partition-id-to-group-%s" % ax] = f_part4

        def f_part2(t, rng, ax=ax):
            parts = list(t.partition(lambda i, m: i[0], axis=ax, remove_empty=True))
            return parts[0][1], [], False
        T["partition-remove-empty-first-%s" % ax] = f_part2

        def f_norm(t, rng, ax=ax):
            # norm is specified for non-negative values (a vector of mixed signs may sum to 0): skipped otherwise
            if t.shape[0] and t.shape[1] and (t.matrix_data.data < 0).any():
                return t, [], True
            return t.norm(axis=ax, inplace=True), [], True
        T["norm-inplace-%s" % ax] = f_norm

        def f_rank(t, rng, ax=ax):
            return t.rankdata(axis=ax, inplace=False), [], False
        T["rankdata-%s" % ax] = f_rank

        def f_tr(t, rng, ax=ax):
            return t.transform(lambda v, i, m: np.where(v > 1, v * 2, 0), axis=ax, inplace=True), [], True
        T["transform-zeroing-inplace-%s" % ax] = f_tr

        # a result that mixes zeros with negative values (the largest entry of each vector becomes 0, the others < 0)
        def f_shift(t, rng, ax=ax):
            return t.transform(lambda v, i, m: v - v.max() if len(v) else v, axis=ax, inplace=True), [], True
        T["transform-shift-inplace-%s" % ax] = f_shift

        def f_shift_c(t, rng, ax=ax):
            return t.transform(lambda v, i, m: v - v.max() if len(v) else v, axis=ax, inplace=False), [], False
        T["transform-shiftcopy-%s" % ax] = f_shift_c

        def f_concat(t, rng, ax=ax):
            other = _mk_other(rng, t if ax == "sample" else t.transpose(), "concat")
            if ax == "observation":
                other = other.transpose()
            return t.concat([other], axis=ax), [], False
        T["concat-%s" % ax] = f_concat

    for axes_name in ("sample", "observation", "whole"):
        def f_del(t, rng, axes_name=axes_name):
            t.del_metadata(keys=["grp", "newkey"], axis=axes_name)
            axes = ["sample", "observation"] if axes_name == "whole" else [axes_name]
            return t, [{"op": "del_md", "axes": axes, "keys": ["grp", "newkey"]}], True
        T["del-metadata-%s" % axes_name] = f_del

    def f_delall(t, rng):
        t.del_metadata(axis="whole")
        return t, [{"op": "del_md", "axes": ["sample", "observation"], "keys": None}], True
    T["del-metadata-all"] = f_delall

    for inplace in (True, False):
        def f_re(t, rng, inplace=inplace):
            return t.remove_empty(axis="whole", inplace=inplace), [], inplace
        T["remove-empty-%s" % inplace] = f_re

        def f_pa(t, rng, inplace=inplace):
            return t.pa(inplace=inplace), [], inplace
        T["pa-%s" % inplace] = f_pa

    T["head"] = lambda t, rng: (t.head(2, 2), [], False)
    T["transpose"] = lambda t, rng: (t.transpose(), [], False)
    T["copy"] = lambda t, rng: (t.copy(), [], False)
    T["merge-union"] = lambda t, rng: (t.merge(_mk_other(rng, t, "merge")), [], False)
    T["merge-intersection"] = lambda t, rng: (
        t.merge(_mk_other(rng, t, "merge"), sample="intersection", observation="intersection"), [], False)
    T["align-to"] = lambda t, rng: (t.align_to(_mk_other(rng, t, "align"), axis="both"), [], False)
    return T


def random_op(rng, templates):
    return rng.choice(sorted(templates))


# ------------------------------------------------------------------ running one history
def model_ops_for(events, result, receiver, inplace, extra):
    """translate the captured events of one call into glue-level model operations"""
    ops = []
    if result is not receiver:
        # the constructor call that created the result, and what was done to the result afterwards
        k = None
        for i, e in enumerate(events):
            if e["kind"] == "ctor" and e["obj"] == id(result) and "error" not in e:
                k = i
        if k is None:
            return None
        e = events[k]
        ops.append({"op": "construct", "args": {x: e[x] for x in ("nrows", "ncols", "rows", "obs_ids", "samp_ids", "omd",
                                                                 "smd", "validate", "obs_index", "samp_index")}})
        tail = []
        for e2 in events[k + 1:]:
            if e2["kind"] == "ctor":
                break
            tail.append(e2)
    else:
        tail = [e for e in events if e["kind"] != "ctor"]
    for e in tail:
        if e["kind"] == "filter":
            ops.append({"op": "filter", "axis": e["axis"], "mask": e["mask"]})
        elif e["kind"] == "content":
            ops.append({"op": "set_content", "rows": e["rows"]})
    return ops + list(extra)


def run_history(ctx, cap, templates, start_spec, route, names, impl_name, tags, profile=None, sparse=False):
    """a table that comes to hold a non-finite value (all generated values are finite and every template keeps them
    finite on the unchanged tree) is a failed case, not a crash of the harness"""
    try:
        return _run_history(ctx, cap, templates, start_spec, route, names, impl_name, tags, profile, sparse)
    except OverflowError as e:
        case = {"start": core.spec_obs(start_spec), "route": route, "ops": names, "impl": impl_name}
        if sparse:
            case["sparse"] = True
        ctx.fail(case, "values_finite", list(tags) + [impl_name], detail={"error": str(e)})
        return False


def _run_history(ctx, cap, templates, start_spec, route, names, impl_name, tags, profile=None, sparse=False):
    """sparse: nothing is asked of any table until the history is over (every accessor may switch the layout and
    thereby end a sharing of arrays between tables; a user does not look after every call either)"""
    if profile:
        import biom.err as E
        with E.errstate(**profile):
            return run_history(ctx, cap, templates, start_spec, route, names, impl_name,
                               list(tags) + ["profile=%s" % sorted(profile.items())], sparse=sparse)
    t = None
    cap.events.clear()
    # IDs the history may remove are probed afterwards: a removed ID must be reported unknown
    probes = PROBES + [["observation", i] for i in start_spec["obs"]] + [["sample", i] for i in start_spec["samp"]]
    t = core.build(start_spec, route)
    steps = []
    ev0 = [e for e in cap.events if e["kind"] == "ctor" and e["obj"] == id(t)]
    first_ops = model_ops_for(list(cap.events), t, None, False, [])
    pending = []
    if sparse:
        pending += first_ops
    else:
        steps.append({"ops": first_ops, "obs": observe(t, probes, ctx.rng), "md": md_obs(t)})
    log = ["start:%s" % route]
    # earlier tables of the history stay alive (a user may still hold them): they must stay coherent too,
    # e.g. when a derived table shares their ID arrays
    alive = []
    bystander_obs = []
    for name in names:
        cap.events.clear()
        receiver = t
        err = None
        try:
            result, extra, inplace = templates[name](t, ctx.rng)
        except Exception as e:
            err = core.err_name(e)
            result, extra, inplace = t, [], True
        ctx.count("op=" + name.split("-")[0])
        if err is not None:
            ctx.count("op-raised=" + err)
            # a refused/failed operation: the table the user still holds must be coherent;
            # events of an aborted in-place call are replayed so the model follows partial effects
            inplace_call = name.endswith("-True") or name.startswith(
                ("add-metadata", "del-metadata", "norm-inplace", "transform-zeroing-inplace", "transform-shift-inplace"))
            # a failed call that works on a private copy leaves the receiver as it was
            ops = model_ops_for(list(cap.events), t, t, True, []) if (cap.events and inplace_call) else []
            # update_ids refusals and the like leave no events
            ops = [o for o in (ops or [])]
        else:
            ops = model_ops_for(list(cap.events), result, receiver, inplace, extra)
        if result is not receiver and all(receiver is not a for a in alive):
            alive.append(receiver)
            alive[:] = alive[-3:]
        t = result
        log.append(name + ("!" + err if err else ""))
        if sparse:
            if ops is None:
                ctx.count("sparse-history-abandoned:no-constructor-event")
                return True
            pending += ops
            if t.shape[0] == 0 or t.shape[1] == 0:
                ctx.count("history-reached-empty-table")
                break
            continue
        for a in alive:
            if a is not t:
                bystander_obs.append((len(log) - 1, observe(a, probes, ctx.rng)))
        if ops is None:
            ctx.notes.append("no constructor event for the result of %s" % name)
            ops = []
            steps.append({"ops": ops, "obs": observe(t, probes, ctx.rng), "md": None, "resync": True})
            break
        steps.append({"ops": ops, "obs": observe(t, probes, ctx.rng), "md": md_obs(t)})
        if t.shape[0] == 0 or t.shape[1] == 0:
            ctx.count("history-reached-empty-table")
            break
    if sparse:
        # first the tables left behind (oldest first), then the current one: nothing has been asked of any of them so far
        order = [a for a in alive if a is not t]
        if ctx.rng.random() < 0.5:
            steps.append({"ops": pending, "obs": observe(t, probes, ctx.rng), "md": md_obs(t)})
            for a in order:
                bystander_obs.append((len(log) - 1, observe(a, probes, ctx.rng)))
        else:
            for a in order:
                bystander_obs.append((len(log) - 1, observe(a, probes, ctx.rng)))
            steps.append({"ops": pending, "obs": observe(t, probes, ctx.rng), "md": md_obs(t)})
        ctx.count("sparse-histories")
    # kernel level: the CSR walk of nonzero() against the Lean transcription, on the final table's own arrays
    if t.shape[0] > 0 and t.shape[1] > 0:
        csr = t.matrix_data.tocsr()
        kreq = {"nonzero_kernel": {"cs": {"nMajor": int(csr.shape[0]), "nMinor": int(csr.shape[1]),
                                         "indptr": [int(x) for x in csr.indptr], "indices": [int(x) for x in csr.indices],
                                         "data": [core.frac(x) for x in csr.data]},
                                  "obs_ids": [str(x) for x in t.ids(axis="observation")],
                                  "samp_ids": [str(x) for x in t.ids()]}}
        try:
            real = [[str(a), str(b)] for a, b in t.nonzero()]
        except Exception as e:
            real = "error:" + core.err_name(e)
        kr = ctx.driver.ask(kreq)
        ctx.count("nonzero-kernel-cases")
        if not csr.has_sorted_indices:
            ctx.count("nonzero-kernel-unsorted-indices")
        if kr.get("ok") != real:
            ctx.diverge({"start": core.spec_obs(start_spec), "route": route, "ops": names, "impl": impl_name},
                        "nonzero(): CSR walk differs from the kernel model (exact order)", list(tags) + [impl_name],
                        detail={"model": kr, "impl": real, "request": kreq})
    for s in steps:
        if s["obs"].get("pairwise_obs") is None:
            s["obs"]["pairwise_obs"] = []
    case = {"start": core.spec_obs(start_spec), "route": route, "ops": names, "impl": impl_name}
    if sparse:
        case["sparse"] = True
    req = {"steps": [{"ops": s["ops"], "obs": s["obs"], "md": s["md"]} for s in steps], "probes": probes}
    ctx.case(case, nontrivial=len(names) >= 1)
    if bystander_obs:
        # coherence of the tables left behind: holds only (the model follows the current table)
        breq = {"steps": [{"ops": [], "obs": o, "md": None} for _, o in bystander_obs], "probes": probes}
        br = ctx.driver.ask(breq)
        ctx.count("bystander-observations", len(bystander_obs))
        for (i, o), rs in zip(bystander_obs, br["steps"]):
            if not rs["holds"]:
                ctx.fail(dict(case, step=i, log=log[:i + 1], bystander=True), rs["clause"],
                         list(tags) + [impl_name, "bystander-table", "after=" + log[i].split("!")[0]], detail={"obs": o})
                return False
    r = ctx.driver.ask(req)
    for i, (s, rs) in enumerate(zip(steps, r["steps"])):
        li = (len(log) - 1) if sparse else i
        step_case = dict(case, step=i, log=log[:li + 1])
        if not rs["holds"]:
            ctx.fail(step_case, rs["clause"], list(tags) + [impl_name, "after=" + log[li].split("!")[0]],
                     detail={"obs": s["obs"]})
            return False
        if not rs["model_holds"]:
            # the model state is incoherent although the real table is fine: model drifted
            ctx.diverge(step_case, "model state not coherent", list(tags) + [impl_name])
            return False
        if not rs["agree"]:
            ctx.diverge(step_case, "glue model observation differs after " + log[li], list(tags) + [impl_name],
                        detail={"model": rs["model"], "impl_obs": s["obs"], "impl_md": s["md"], "ops": s["ops"]})
            return False
    return True


def start_specs(rng):
    specs = []
    s1 = {"obs": ["a", "bb", "c1"], "samp": ["x", "y2", "zed", "w"],
          "rows": [[1.0, 0.0, 3.0, 2.0], [0.0, 0.0, 4.0, 1.0], [2.0, 5.0, 0.0, 0.0]],
          "omd": [{"grp": "a", "taxonomy": ["k__A", "p__x"]}, {"grp": "b", "taxonomy": ["k__A", "p__y"]},
                  {"grp": "a", "taxonomy": ["k__B", "p__x"]}],
          "smd": [{"grp": "u"}, {"grp": "v"}, {"grp": "u"}, {"grp": "w"}], "type": "OTU table"}
    s2 = {"obs": ["o1", "o2"], "samp": ["s1", "s2", "s3"], "rows": [[0.0, 2.0, 2.0], [3.0, 0.0, 1.0]],
          "omd": None, "smd": None, "type": None}
    s3 = {"obs": ["é", "o b", "x/y", "zz"], "samp": ["S a", "日本"],
          "rows": [[1.0, 1.0], [0.0, 0.0], [2.0, 0.0], [0.0, 7.0]], "omd": None,
          "smd": [{"grp": "q"}, {"grp": "r"}], "type": "Taxon table"}
    # canonically equivalent but distinct IDs on one axis (NFC and NFD spelling): two IDs, two positions, two vectors
    a, b = core.NORMALISATION_PAIRS[0]
    c, d = core.NORMALISATION_PAIRS[2]
    s4 = {"obs": [a, "mid", b], "samp": [c, d, "s3"], "rows": [[1.0, 0.0, 3.0], [0.0, 6.0, 4.0], [2.0, 5.0, 0.0]],
          "omd": [{"grp": "a"}, {"grp": "b"}, {"grp": "a"}], "smd": None, "type": None}
    # partly annotated axes: some IDs carry metadata, others an empty entry
    s5 = {"obs": ["a1", "a2", "b1"], "samp": ["x", "y", "zb"], "rows": [[1.0, 2.0, 0.0], [0.0, 3.0, 4.0], [5.0, 0.0, 6.0]],
          "omd": [{"grp": "a"}, {}, {"grp": "b"}], "smd": [{}, {"grp": "v"}, {"grp": "w"}], "type": None}
    return [s1, s2, s3, s4, s5]


def run(ctx):
    ctx.rule = ("histories of public operations on real tables; after every step all accessors are observed and "
                "C05.holds evaluated; each step is also replayed on the glue model (captured constructor calls, "
                "kernel filter masks, content changes, update_ids, add/del metadata) and the two observations compared. "
                "quick: every ordered pair of the operation templates on 3 start tables + random histories of length 8; "
                "distinct = distinct (start, route, op names, kernel implementation); non-trivial = at least one operation")
    ctx.trusted = ["the translation of real calls into glue-level operations (constructor/kernels wrapped from outside)",
                   "scipy conversions keep the dense content (monitored: every observation carries the dense matrix of a deep copy)"]
    templates = op_templates()
    names = sorted(templates)
    specs = start_specs(ctx.rng)
    impls = kernels.kernel_impls()
    cap = Capture()
    budget = 36 if ctx.quick() else 600
    try:
        for impl_name, mods in impls:
            if mods is None:
                ctx.diverge({"impl": impl_name}, "the .pyx sources can no longer be rendered", [impl_name])
                continue
            cap.install(mods)
            try:
                # corpus: the repaired defects of this property
                run_history(ctx, cap, templates, specs[0], "csr_zeros", [], impl_name, ["corpus"])   # stored zeros: nonzero()
                run_history(ctx, cap, templates, specs[0], "dense", ["collapse-const-norm-min2-sample"], impl_name, ["corpus"])
                run_history(ctx, cap, templates, specs[1], "dense", ["collapse-const-norm-min2-observation"], impl_name, ["corpus"])
                run_history(ctx, cap, templates, specs[1], "dense", ["subsample-2-sample"], impl_name, ["corpus"])
                # every single op and every ordered pair (compiled kernels: all; rendered: singles + sampled pairs)
                for spec in specs:
                    for a in names:
                        run_history(ctx, cap, templates, spec, "dense", [a], impl_name, ["depth1"])
                # arrays shared between a table and a table derived from it: a deriving operation that may hand its
                # content on unchanged, then an in-place operation on the result, and only THEN is anything asked of the
                # two tables (sparse) — the source must still be coherent
                if impl_name == "compiled":
                    deriving = [n for n in names if n.startswith(("sort-", "copy", "align-to", "head", "transpose", "remove-empty-False",
                                                                  "pa-False", "filter-pred-", "update-ids-onto-existing-",
                                                                  "update-ids-partial-shorter-")) and not n.endswith("-True")]
                    inplace_ops = [n for n in names if n.endswith("-True") or n.startswith(
                        ("add-metadata", "del-metadata", "norm-inplace", "transform-zeroing-inplace", "transform-shift-inplace"))]
                    k = 0
                    for d in deriving:
                        for i_op in inplace_ops:
                            k += 1
                            # the layout decides which axis works on the table's own arrays: CSR for observation-axis
                            # operations, CSC for sample-axis ones
                            rt = "csc" if "-sample" in i_op else "csr"
                            for spec, route in (((specs[(k + ctx.seed) % 2], rt),) if ctx.quick() else
                                                [(sp, r2) for sp in specs for r2 in ("csr", "csc")]):
                                run_history(ctx, cap, templates, spec, route, [d, i_op], impl_name, ["shared-arrays"], sparse=True)
                pairs = list(itertools.product(names, names))
                if impl_name != "compiled" or ctx.quick():
                    ctx.rng.shuffle(pairs)
                    pairs = pairs[:(1200 if impl_name == "compiled" else 300)]
                else:
                    ctx.exhaustive = True
                for k, (a, b) in enumerate(pairs):
                    if ctx.time_left(budget * (0.6 if impl_name == "compiled" else 0.85)) < 0:
                        ctx.notes.append("pair enumeration stopped by the time budget after %d pairs (%s)" % (k, impl_name))
                        ctx.exhaustive = False
                        break
                    run_history(ctx, cap, templates, specs[k % len(specs)], core.ROUTES[k % len(core.ROUTES)], [a, b],
                                impl_name, ["depth2"], sparse=(k % 3 == 2))
                # histories under empty='raise': operations that empty the table raise; the caller keeps the table
                emptying = ["filter-pred-sample-True", "filter-pred-observation-True", "remove-empty-True", "subsample-2-sample",
                            "filter-first-half-sample-True", "collapse-const-norm-min2-sample", "head", "transform-zeroing-inplace-sample"]
                zero_spec = {"obs": ["a", "b"], "samp": ["x", "y", "z"], "rows": [[0.0, 1.0, 0.0], [0.0, 0.0, 0.0]],
                             "omd": None, "smd": [{"grp": "u"}, {"grp": "v"}, {"grp": "w"}], "type": None}
                allzero = {"obs": ["a", "b"], "samp": ["x", "y"], "rows": [[0.0, 0.0], [0.0, 0.0]], "omd": None, "smd": None, "type": None}
                for spec in (zero_spec, allzero, specs[1]):
                    for a in emptying:
                        for b in ("copy", "filter-invert-first-sample-True", "update-ids-partial-shorter-sample-True"):
                            run_history(ctx, cap, templates, spec, "dense", [a, b], impl_name, ["profile"], profile={"empty": "raise"})
                # random longer histories on generated tables
                n_rand = 120 if ctx.quick() else 6000
                for k in range(n_rand):
                    if ctx.time_left(budget * (0.8 if impl_name == "compiled" else 1.0)) < 0:
                        break
                    spec = core.gen_spec(ctx.rng, max_n=5, max_m=5, min_n=2, min_m=2, classes=("smallcount", "count"))
                    if ctx.rng.random() < 0.25:
                        key = ctx.rng.choice(["obs", "samp"])
                        tw = core.twin_ids(ctx.rng, 1)
                        if not (set(tw) & set(spec[key])):
                            spec[key] = list(spec[key])
                            spec[key][0], spec[key][-1] = tw[0], tw[1]
                            ctx.count("spec-with-twin-ids")
                    L = ctx.rng.choice([3, 5, 8]) if ctx.quick() else ctx.rng.choice([5, 8, 12, 20])
                    hist = [random_op(ctx.rng, templates) for _ in range(L)]
                    run_history(ctx, cap, templates, spec, ctx.rng.choice(core.ROUTES), hist, impl_name, ["random"],
                                sparse=(ctx.rng.random() < 0.4))
            finally:
                cap.uninstall()
    finally:
        pass


def replay(ctx, rec):
    case = rec["case"]
    templates = op_templates()
    cap = Capture()
    impls = dict(kernels.kernel_impls())
    mods = impls.get(case.get("impl", "compiled")) or impls["compiled"]
    cap.install(mods)
    try:
        spec = {"obs": case["start"]["obs"], "samp": case["start"]["samp"],
                "rows": [[float(core.unfrac(v)) for v in r] for r in case["start"]["rows"]],
                "omd": None, "smd": None, "type": case["start"].get("type")}
        run_history(ctx, cap, templates, spec, case["route"], case["ops"], case.get("impl", "compiled"), ["replay"],
                    sparse=bool(case.get("sparse")))
    finally:
        cap.uninstall()
