"""C09 — merge is the pointwise sum over the union / intersection of IDs.

Real `Table.merge` is run in-process on pairs and k-tuples (list / tuple form) of tables built through
different `core.build` routes and prior histories; the outcome is observed through the public API
(`ids`, `get_value_by_ids`, `metadata(id, axis)`), the branch taken (fast / general / folded list) is
observed by wrapping `Table.merge` and `Table._fast_merge`; Lean evaluates `holds` on the real
outcome and compares it (by ID, order not compared) and the branch trace with the model.
All values are small integers or dyadic fractions, so every sum is exact in binary64."""
import copy
import itertools

from . import core

MODES = ["union", "intersection"]
# named family of metadata functions; each has a Lean twin (BiomModel/C09.lean `namedF`).
# every member maps (None, None) to None or {} ("no metadata, no metadata" -> no metadata)
FNAMES = ["prefer_self", "prefer_other", "union_self", "union_always", "both_only", "drop", "tag"]
PATTERNS = ["disjoint", "nested_in", "nested_out", "partial", "identical", "permuted"]
HIST = ["none", "copy", "transpose2", "sort_samp_rev", "sort_obs_rev", "drop_first_samp", "drop_last_obs",
        "self_merge", "self_merge_inter", "premerge", "del_md", "sort_natural"]
VALUE_CLASSES = ("count", "smallcount", "dyadic", "neg")


def py_f(name):
    def tag(x, y):
        if x is None and y is None:
            return None
        return {"src": "both" if (x is not None and y is not None) else ("self" if x is not None else "other")}

    def union_self(x, y):
        if x is None and y is None:
            return None
        d = dict(y or {})
        d.update(x or {})
        return d

    def union_always(x, y):
        d = dict(y or {})
        d.update(x or {})
        return d

    if name == "prefer_self":
        from biom.util import prefer_self
        return prefer_self
    return {
        "prefer_other": lambda x, y: y if y is not None else x,
        "union_self": union_self,
        "union_always": union_always,
        "both_only": lambda x, y: x if (x is not None and y is not None) else None,
        "drop": lambda x, y: None,
        "tag": tag,
    }[name]


# ----------------------------------------------------------------------------- operands
def apply_history(t, hist):
    """value-preserving or exactly computable prior operations"""
    for h in hist:
        op = h if isinstance(h, str) else h[0]
        if op in ("none",):
            pass
        elif op == "copy":
            t = t.copy()
        elif op == "transpose2":
            t = t.transpose().transpose()
        elif op == "sort_samp_rev":
            t = t.sort_order(list(reversed(list(t.ids()))))
        elif op == "sort_obs_rev":
            t = t.sort_order(list(reversed(list(t.ids(axis="observation")))), axis="observation")
        elif op == "sort_natural":
            t = t.sort(axis="sample")
        elif op == "drop_first_samp":
            if len(t.ids()) > 1:
                t = t.filter([t.ids()[0]], invert=True, inplace=False)
        elif op == "drop_last_obs":
            if len(t.ids(axis="observation")) > 1:
                t = t.filter([t.ids(axis="observation")[-1]], axis="observation", invert=True, inplace=False)
        elif op == "self_merge":
            t = t.merge(t)
        elif op == "self_merge_inter":
            t = t.merge(t, sample="intersection", observation="intersection")
        elif op == "premerge":
            other = core.build(h[1], h[2])
            try:
                t = t.merge(other, sample=h[3], observation=h[4])
            except Exception as e:
                if core.err_name(e) != "TableException":
                    raise
        elif op == "del_md":
            t = t.copy()
            t.del_metadata(axis="whole")
        else:
            raise ValueError(op)
    return t


def build_operand(rec):
    return apply_history(core.build(rec["spec"], rec["route"]), rec["hist"])


def public_obs(r):
    """the result as seen through ids / get_value_by_ids / metadata(id, axis)"""
    obs = [str(i) for i in r.ids(axis="observation")]
    samp = [str(i) for i in r.ids()]
    rows = [[core.frac(r.get_value_by_ids(o, s)) for s in samp] for o in obs]
    omd = smd = None
    if r.metadata(axis="observation") is not None:
        omd = [core.canon_md_entry(r.metadata(o, "observation")) for o in obs]
    if r.metadata(axis="sample") is not None:
        smd = [core.canon_md_entry(r.metadata(s, "sample")) for s in samp]
    return {"obs": obs, "samp": samp, "rows": rows, "omd": omd, "smd": smd, "type": r.type}


class Tracer:
    """records which implementation runs at each merge step, by wrapping the two methods"""

    def __enter__(self):
        from biom import Table
        self.T = Table
        self.events = []
        self.orig_merge = Table.merge
        self.orig_fast = Table._fast_merge
        ev = self.events
        om, of = self.orig_merge, self.orig_fast

        def merge(this, *a, **k):
            ev.append("M")
            return om(this, *a, **k)

        def _fast_merge(this, *a, **k):
            ev.append("F")
            return of(this, *a, **k)
        Table.merge = merge
        Table._fast_merge = _fast_merge
        return self

    def __exit__(self, *exc):
        self.T.merge = self.orig_merge
        self.T._fast_merge = self.orig_fast
        return False

    def steps(self, is_list):
        ev = self.events[1:]            # drop the top-level call
        if not is_list:
            return ["fast" if ev[:1] == ["F"] else "general"]
        if ev[:1] == ["F"]:
            return ["fast"]
        out = []
        for i, e in enumerate(ev):
            if e == "M":
                out.append("fast" if ev[i + 1:i + 2] == ["F"] else "general")
        return out


def run_case(ctx, recipe, tags=()):
    """recipe: {"ops": [operand records], "form": single|list|tuple, "ms", "mo", "fs", "fo"}
    fs/fo: "default" (argument not passed), a family name, or None"""
    try:
        tables = [build_operand(r) for r in recipe["ops"]]
    except Exception as e:
        # the histories are themselves valid calls (self-merges never have an empty axis): a refusal
        # or crash while preparing an operand is a failure of the code under test
        ctx.case({"recipe": recipe}, nontrivial=False)
        ctx.fail({"recipe": recipe}, "history:unexpected-" + core.err_name(e), tuple(tags) + ("history",))
        return None, None, None
    a, others = tables[0], tables[1:]
    form = recipe["form"]
    kw = {"sample": recipe["ms"], "observation": recipe["mo"]}
    names = {}
    for key, arg in (("fs", "sample_metadata_f"), ("fo", "observation_metadata_f")):
        p = recipe[key]
        if p == "default":
            names[key] = "prefer_self"
        elif p is None:
            kw[arg] = None
            names[key] = None
        else:
            kw[arg] = py_f(p)
            names[key] = p
    if form == "single":
        arg = others[0]
    elif form == "list":
        arg = list(others)
    else:
        arg = tuple(others)
    before = [core.table_obs(t) for t in tables]
    with Tracer() as tr:
        try:
            r = a.merge(arg, **kw)
            outcome = {"ok": public_obs(r)}
        except Exception as e:          # every exception class is reported to the predicate
            outcome = {"error": core.err_name(e)}
            r = None
    steps = tr.steps(form != "single")
    req = {"a": before[0], "others": before[1:], "list": form != "single", "ms": recipe["ms"], "mo": recipe["mo"],
           "fs": names["fs"], "fo": names["fo"], "outcome": outcome, "trace": steps}
    # non-trivial: two or more operands each holding a non-zero value, more than one cell overall
    nz = [any(v != "0" for row in b["rows"] for v in row) for b in before]
    cells = len({o for b in before for o in b["obs"]}) * len({s for b in before for s in b["samp"]})
    ctx.case({k: req[k] for k in ("a", "others", "list", "ms", "mo", "fs", "fo")},
             nontrivial=len(before) >= 2 and sum(nz) >= 2 and cells >= 2)
    resp = ctx.driver.ask(req)
    case = {"recipe": recipe, "request": req}
    branch = "fast" if steps == ["fast"] else ("general" if form == "single" else "folded:" + "".join(s[0] for s in steps))
    ctx.count("branch=" + (branch if len(branch) < 14 else branch[:14] + "+"))
    ctx.count("form=%s k=%d" % (form, len(others)))
    ctx.count("modes=%s/%s" % (recipe["ms"][:5], recipe["mo"][:5]))
    ctx.count("outcome=" + ("ok" if "ok" in outcome else outcome["error"]))
    ctx.count("policy(sample)=%s" % recipe["fs"])
    ctx.count("policy(observation)=%s" % recipe["fo"])
    mdcfg = "".join("1" if (b["omd"] is not None or b["smd"] is not None) else "0" for b in before[:3])
    ctx.count("md(operands)=" + mdcfg)
    if "ok" in outcome:
        ctx.count("result-md=%s" % ("none" if (outcome["ok"]["omd"] is None and outcome["ok"]["smd"] is None) else "some"))
        ctx.count("order-as-model=%s" % resp.get("same_order"))
    if not resp["model_holds"]:
        ctx.diverge(case, "theorem model_holds contradicted by the driver", tags, detail={"model": resp["model"]})
    if not resp["holds"]:
        ctx.fail(case, resp["clause"], tags, detail={"model": resp["model"], "model_trace": resp["model_trace"]})
    elif not resp["agree"]:
        ctx.diverge(case, "outcome (by ID) or branch trace differs from the model", tags,
                    detail={"model": resp["model"], "model_trace": resp["model_trace"]})
    return resp, outcome, steps


# ----------------------------------------------------------------------------- generators
def id_sets(rng, k, pattern, prefix, max_n):
    """k ID lists with a chosen overlap pattern between the receiver and the others"""
    pool = core.gen_ids(rng, 2 * max_n + 2, prefix, "mixed")
    n = rng.randint(1, max_n)
    base = pool[:n]
    rest = pool[n:]
    out = [list(base)]
    for j in range(1, k):
        if pattern == "identical":
            ids = list(base)
        elif pattern == "permuted":
            ids = list(base)
            rng.shuffle(ids)
            if n > 1 and ids == base:
                ids = ids[1:] + ids[:1]
        elif pattern == "disjoint":
            m = rng.randint(1, max_n)
            ids = rest[(j - 1) * 2:(j - 1) * 2 + m][:max_n] or [rest[0]]
            ids = [x for x in ids if x not in base] or [prefix + "zz%d" % j]
        elif pattern == "nested_in":      # other inside the receiver
            m = rng.randint(1, n)
            ids = rng.sample(base, m)
        elif pattern == "nested_out":     # receiver inside the other
            extra = rest[:rng.randint(1, max(1, max_n - n))]
            ids = list(base) + extra
            rng.shuffle(ids)
        elif pattern == "partial":
            keep = rng.sample(base, rng.randint(1, n)) if n > 1 else list(base)
            if n > 1 and len(keep) == n:
                keep = keep[:-1]
            extra = rest[:rng.randint(1, max(1, max_n - len(keep)))]
            ids = keep + extra
            rng.shuffle(ids)
        else:
            raise ValueError(pattern)
        out.append(ids)
    return out


def gen_md(rng, ids, who, kind):
    """metadata that differs between operands on shared IDs (key `who`), optionally with holes"""
    if kind == "none":
        return None
    md = []
    for i, id_ in enumerate(ids):
        e = {"who": who, "grp": rng.choice(["a", "b"])}
        if kind in ("rich", "holes"):
            e["depth"] = rng.randint(0, 3)
            e["taxonomy"] = ["k__%s" % rng.choice("AB"), "p__%s" % who]
        if kind == "own-key":
            e = {"only_%s" % who: i}
        md.append(e)
    if kind == "holes" and len(md) > 1:
        md[rng.randrange(len(md))] = None
    return md


def gen_operand(rng, obs, samp, who, md_o, md_s, allow_hist=True, max_n=4):
    rows = core.gen_grid(rng, len(obs), len(samp), rng.choice([0.3, 0.6, 0.9, 1.0]), VALUE_CLASSES)
    spec = {"obs": list(obs), "samp": list(samp), "rows": rows, "omd": gen_md(rng, obs, who, md_o),
            "smd": gen_md(rng, samp, who, md_s), "type": rng.choice([None, "OTU table"])}
    hist = []
    if allow_hist and rng.random() < 0.45:
        h = rng.choice(HIST)
        if h == "premerge":
            o2 = rng.sample(obs, rng.randint(1, len(obs))) + ["Opre"]
            s2 = rng.sample(samp, rng.randint(1, len(samp))) + ["Spre"]
            spec2 = {"obs": o2, "samp": s2,
                     "rows": core.gen_grid(rng, len(o2), len(s2), 0.7, VALUE_CLASSES),
                     "omd": gen_md(rng, o2, "pre", rng.choice(["none", "plain"])),
                     "smd": gen_md(rng, s2, "pre", rng.choice(["none", "plain"])), "type": None}
            h = ["premerge", spec2, rng.choice(core.ROUTES), rng.choice(MODES), rng.choice(MODES)]
        hist.append(h)
    return {"spec": spec, "route": rng.choice(core.ROUTES), "hist": hist}


MD_KINDS = ["none", "plain", "rich", "holes", "own-key"]


def gen_recipe(rng, k, opat, spat, ms, mo, mdcfg, fs, fo, form, max_n=4, allow_hist=True):
    """mdcfg: per operand a pair (obs kind, samp kind)"""
    osets = id_sets(rng, k + 1, opat, "O", max_n)
    ssets = id_sets(rng, k + 1, spat, "S", max_n)
    ops = []
    for j in range(k + 1):
        mo_k, ms_k = mdcfg[j]
        ops.append(gen_operand(rng, osets[j], ssets[j], "t%d" % j, mo_k, ms_k, allow_hist, max_n))
    return {"ops": ops, "form": form, "ms": ms, "mo": mo, "fs": fs, "fo": fo}


def md_config(rng, which, k):
    """which: neither | self | other | both — who carries metadata (on one or both axes)"""
    def some():
        c = rng.choice([("plain", "plain"), ("rich", "none"), ("none", "plain"), ("holes", "plain"),
                        ("own-key", "own-key"), ("plain", "holes")])
        return c
    cfg = []
    for j in range(k + 1):
        has = (which == "both") or (which == "self" and j == 0) or (which == "other" and j == k) or \
              (which == "mixed" and rng.random() < 0.5)
        cfg.append(some() if has else ("none", "none"))
    return cfg


def policy(rng):
    c = rng.random()
    if c < 0.35:
        return "default"
    if c < 0.45:
        return None
    return rng.choice(FNAMES)


# ----------------------------------------------------------------------------- fixed corpus
def fixed_corpus():
    """original failing inputs of the repaired defects, run first"""
    A = {"obs": ["o1", "o2"], "samp": ["s1", "s2"], "rows": [[1.0, 2.0], [3.0, 4.0]], "omd": None, "smd": None,
         "type": None}
    B = {"obs": ["o2", "o3"], "samp": ["s2", "s3"], "rows": [[1.0, 2.0], [3.0, 4.0]],
         "omd": [{"k": "x"}, {"k": "y"}], "smd": [{"m": 1}, {"m": 2}], "type": None}
    C = {"obs": ["o2", "o3"], "samp": ["s2", "s3"], "rows": [[1.0, 2.0], [3.0, 4.0]], "omd": None, "smd": None,
         "type": None}

    def op(s):
        return {"spec": copy.deepcopy(s), "route": "dense", "hist": []}

    def rc(ops, form="single", ms="union", mo="union", fs="default", fo="default"):
        return {"ops": [op(s) for s in ops], "form": form, "ms": ms, "mo": mo, "fs": fs, "fo": fo}
    out = [
        # e8e86b3c: receiver without metadata + other with metadata, union/union
        ("fixed:e8e86b3c", rc([A, B])),
        ("fixed:e8e86b3c", rc([A, B], form="list")),
        ("fixed:e8e86b3c", rc([A, B, B], form="list")),
        ("fixed:e8e86b3c", rc([A, B, B], form="tuple")),
        ("fixed:e8e86b3c", rc([B, A])),
        ("fixed:e8e86b3c", rc([A, C, B], form="list")),
        # 7991d3d0: a None metadata function reaching the general path raised TypeError
        ("fixed:7991d3d0", rc([A, C], ms="intersection", fs=None, fo=None)),
        ("fixed:7991d3d0", rc([A, C], mo="intersection", fs=None, fo=None)),
        ("fixed:7991d3d0", rc([A, B], fs=None)),
        ("fixed:7991d3d0", rc([A, B], fo=None)),
        ("fixed:7991d3d0", rc([B, A], fs=None)),
        ("fixed:7991d3d0", rc([A, B], ms="intersection", mo="intersection", fs=None, fo=None)),
        ("fixed:7991d3d0", rc([A, B, C], form="list", fs=None)),
        ("fixed:7991d3d0", rc([A, B], fs=None, fo=None)),
        ("fixed:7991d3d0", rc([A, C], fs=None)),
    ]
    return out


def degenerate_corpus():
    """empty intersections (must raise), empty unions (0xM operands), empty list of others"""
    def t(obs, samp, md=False, val=1.0):
        return {"spec": {"obs": obs, "samp": samp, "rows": [[val] * len(samp) for _ in obs],
                         "omd": [{"k": o} for o in obs] if md and obs else None,
                         "smd": [{"k": s} for s in samp] if md and samp else None, "type": None},
                "route": "dense", "hist": []}
    out = []
    X, Y = t(["o1", "o2"], ["s1", "s2"]), t(["o3"], ["s1", "s3"])
    Xm, Ym = t(["o1", "o2"], ["s1", "s2"], True), t(["o3"], ["s1", "s3"], True)
    Z = t(["o9"], ["s9"])
    for a, b in ((X, Y), (Xm, Y), (X, Ym), (Xm, Ym), (X, Z), (Xm, Z)):
        for ms, mo in itertools.product(MODES, MODES):
            for form in ("single", "list"):
                out.append(("degenerate", {"ops": [a, b], "form": form, "ms": ms, "mo": mo, "fs": "default",
                                           "fo": "default"}))
    E = t([], ["s1", "s2"])
    Em = t([], ["s1", "s2"], True)
    for a, b in ((E, E), (E, X), (X, E), (Em, E), (E, Em), (Em, X), (X, Em)):
        for ms, mo in itertools.product(MODES, MODES):
            out.append(("degenerate", {"ops": [a, b], "form": "single", "ms": ms, "mo": mo, "fs": "default",
                                       "fo": "default"}))
    for a in (X, Xm):
        for ms, mo in itertools.product(MODES, MODES):
            for form in ("list", "tuple"):
                out.append(("degenerate", {"ops": [a], "form": form, "ms": ms, "mo": mo, "fs": "default",
                                           "fo": "default"}))
    # a union axis on which the first two operands have no ID at all: the first pairwise step refuses
    for ops in ((E, Em, X), (Em, E, X), (E, E, X), (X, E, Em)):
        for form in ("list", "tuple"):
            out.append(("degenerate", {"ops": list(ops), "form": form, "ms": "union", "mo": "union", "fs": "default",
                                       "fo": "default"}))
    # three operands whose pairwise intersections are non-empty but whose common intersection is empty
    P, Q, R = t(["o1", "o2"], ["s1"]), t(["o2", "o3"], ["s1"]), t(["o1", "o3"], ["s1"])
    for ops in ((P, Q, R), (R, P, Q)):
        for ms, mo in itertools.product(MODES, MODES):
            out.append(("degenerate", {"ops": list(ops), "form": "list", "ms": ms, "mo": mo, "fs": "default",
                                       "fo": "default"}))
    return out


def run(ctx):
    rng = ctx.rng
    ctx.rule = ("recipes = (operands built by core.build route + prior history) x form (single/list/tuple, k<=3 others) x "
                "ID overlap pattern per axis (disjoint, nested either way, partial, identical, permuted) x 4 mode pairs x "
                "metadata on neither/self/other/both x policy (default prefer_self, named custom family, None); "
                "fixed corpus of the repaired defects first, then degenerate (empty intersection / empty union / empty list), "
                "then systematic product, then random. non-trivial = at least two operands holding a non-zero value "
                "and more than one cell; distinct = distinct operand contents + arguments")
    ctx.trusted = ["values are small integers / dyadic fractions so that all sums are exact in binary64",
                   "custom metadata functions come from a named family with Lean twins; each maps (None, None) to "
                   "None or {} (domain hypothesis of the property)",
                   "the branch taken is observed by wrapping Table.merge / Table._fast_merge from outside"]
    ctx.assumptions = ["float addition is exact on the generated values (|v| < 2^7, at most 6 fractional bits, <= 8 terms)"]
    for tag, recipe in fixed_corpus():
        run_case(ctx, recipe, (tag, "fixed"))
    for tag, recipe in degenerate_corpus():
        run_case(ctx, recipe, (tag,))
    # systematic: overlap pattern on each axis x modes x who carries metadata
    pats = PATTERNS
    for opat in pats:
        for spat in pats:
            for ms, mo in itertools.product(MODES, MODES):
                for which in ("neither", "self", "other", "both"):
                    fs, fo = policy(rng), policy(rng)
                    form = rng.choice(["single", "single", "list"])
                    recipe = gen_recipe(rng, 1, opat, spat, ms, mo, md_config(rng, which, 1), fs, fo, form)
                    run_case(ctx, recipe, ("systematic", "o=" + opat, "s=" + spat, "md=" + which))
                    ctx.count("pattern(obs)=" + opat)
                    ctx.count("md=" + which)
    # every policy pair on a partial overlap with metadata on both operands, all modes
    for fs, fo in itertools.product(["default", None] + FNAMES, repeat=2):
        ms, mo = rng.choice(MODES), rng.choice(MODES)
        for which in ("both", "other"):
            recipe = gen_recipe(rng, 1, "partial", "partial", ms, mo, md_config(rng, which, 1), fs, fo, "single")
            run_case(ctx, recipe, ("policy-product",))
    # random, including k-tuples
    n = 2000 if ctx.quick() else 60000
    for _ in range(n):
        k = rng.choice([1, 1, 2, 2, 3])
        form = "single" if (k == 1 and rng.random() < 0.5) else rng.choice(["list", "tuple"])
        which = rng.choice(["neither", "neither", "self", "other", "both", "mixed"])
        ms, mo = rng.choice([("union", "union")] * 3 + list(itertools.product(MODES, MODES)))
        recipe = gen_recipe(rng, k, rng.choice(pats), rng.choice(pats), ms, mo, md_config(rng, which, k),
                            policy(rng), policy(rng), form, max_n=4 if ctx.quick() else rng.choice([3, 4, 6]))
        run_case(ctx, recipe, ("random", "k=%d" % k))
        ctx.count("md=" + which)


def replay(ctx, rec):
    run_case(ctx, rec["case"]["recipe"], ("replay",))
