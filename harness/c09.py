"""C09 — merge is the pointwise sum over the union / intersection of IDs.

Real `Table.merge` is run in-process on pairs and k-tuples (list / tuple form) of tables built through
different `core.build` routes and prior histories; the outcome is observed through the public API
(`ids`, `get_value_by_ids`, `metadata(id, axis)`), the branch taken (fast / general / folded list) is
observed by wrapping `Table.merge` and `Table._fast_merge`; Lean evaluates `holds` on the real
outcome and compares it (by ID, order not compared) and the branch trace with the model.
Every sum under test is exact in binary64: one value regime per case (small integers / dyadic fractions; odd
integers above 2**24; k/2**30; denormals; arbitrary doubles only where each cell has a single contributor)."""
import copy
import itertools

from . import core

MODES = ["union", "intersection"]
# named family of metadata functions; each has a Lean twin (BiomModel/C09.lean `namedF`).
# every member maps (None, None) to None or {} ("no metadata, no metadata" -> no metadata)
FNAMES = ["prefer_self", "prefer_other", "union_self", "union_always", "both_only", "drop", "tag", "sum_depth"]
# members that read fields by subscription: an entry of table metadata answers None for a field it lacks, and (being a
# defaultdict) then lists that field with the value None — the operand is "unchanged" up to such None-valued fields
SUBSCRIPTING = ["sum_depth"]
# members with f(None, None) != "no metadata": in the property's domain wherever every step takes the general
# path (the fast path builds a metadata-free table: sanctioned by the property under the Neutral hypothesis);
# a case using one of them is judged only if the MODEL's trace contains no fast step
NONNEUTRAL = ["tag_always", "count_described"]
REGIMES = ["small", "small", "small", "bigint", "fine", "denormal", "nondyadic"]
PATTERNS = ["disjoint", "nested_in", "nested_out", "partial", "identical", "permuted", "tricky"]
HIST = ["none", "copy", "transpose2", "sort_samp_rev", "sort_obs_rev", "drop_first_samp", "drop_last_obs",
        "self_merge", "self_merge_inter", "premerge", "del_md", "sort_natural", "derived", "derived", "derived"]
# a table derived from a parent, after which ONE of the two is changed in place and the OTHER is the operand
DERIVE_HOW = ["filter_all", "filter_drop", "sort_same", "sort_rev", "transpose2", "copy", "ctor_shared", "merge_self_inter"]
DERIVE_CHANGE = ["rename_one", "swap_two", "rotate", "filter_inplace", "del_md", "scale2", "add_md", "mutate_md_dict"]
VALUE_CLASSES = ("count", "smallcount", "dyadic", "neg")


def py_f(name):
    def tag(x, y):
        if x is None and y is None:
            return None
        return {"src": "both" if (x is not None and y is not None) else ("self" if x is not None else "other")}

    def union_self(x, y):
        if x is None and y is None:
            return None
        d = dict(y or {})
        d.update(x or {})
        return d

    def union_always(x, y):
        d = dict(y or {})
        d.update(x or {})
        return d

    if name == "prefer_self":
        from biom.util import prefer_self
        return prefer_self
    def tag_always(x, y):
        return {"src": "both" if (x is not None and y is not None) else
                ("self" if x is not None else ("other" if y is not None else "neither"))}

    def sum_depth(x, y):
        if x is None and y is None:
            return None
        d, g = 0, None
        for m in (x, y):
            if m is not None:
                d += m["depth"] or 0        # subscription: relies on the None default of table metadata
                if g is None:
                    g = m["grp"]
        return {"depth": d, "grp": g}

    return {
        "sum_depth": sum_depth,
        "tag_always": tag_always,
        "count_described": lambda x, y: {"described_by": (x is not None) + (y is not None)},
        "prefer_other": lambda x, y: y if y is not None else x,
        "union_self": union_self,
        "union_always": union_always,
        "both_only": lambda x, y: x if (x is not None and y is not None) else None,
        "drop": lambda x, y: None,
        "tag": tag,
    }[name]


# ----------------------------------------------------------------------------- operands
def apply_history(t, hist):
    """value-preserving or exactly computable prior operations"""
    for h in hist:
        op = h if isinstance(h, str) else h[0]
        if op in ("none",):
            pass
        elif op == "copy":
            t = t.copy()
        elif op == "transpose2":
            t = t.transpose().transpose()
        elif op == "sort_samp_rev":
            t = t.sort_order(list(reversed(list(t.ids()))))
        elif op == "sort_obs_rev":
            t = t.sort_order(list(reversed(list(t.ids(axis="observation")))), axis="observation")
        elif op == "sort_natural":
            t = t.sort(axis="sample")
        elif op == "drop_first_samp":
            if len(t.ids()) > 1:
                t = t.filter([t.ids()[0]], invert=True, inplace=False)
        elif op == "drop_last_obs":
            if len(t.ids(axis="observation")) > 1:
                t = t.filter([t.ids(axis="observation")[-1]], axis="observation", invert=True, inplace=False)
        elif op == "self_merge":
            t = t.merge(t)
        elif op == "self_merge_inter":
            t = t.merge(t, sample="intersection", observation="intersection")
        elif op == "premerge":
            other = core.build(h[1], h[2])
            try:
                t = t.merge(other, sample=h[3], observation=h[4])
            except Exception as e:
                if core.err_name(e) != "TableException":
                    raise
        elif op == "del_md":
            t = t.copy()
            t.del_metadata(axis="whole")
        elif op == "derived":
            t = derive_and_change(t, *h[1:])
        else:
            raise ValueError(op)
    return t


def derive_and_change(parent, how, axis, change, change_axis, change_parent):
    """derive a table from `parent` (axis = the axis the derivation works on), change one of the two in place
    on `change_axis`, return the OTHER one: lookups / ID arrays / metadata objects shared between the two must
    not let the change leak"""
    from biom import Table
    ids = list(parent.ids(axis=axis))
    if parent.shape[0] == 0 or parent.shape[1] == 0:
        return parent
    if how == "filter_all":
        child = parent.filter(lambda v, i, m: True, axis=axis, inplace=False)
    elif how == "filter_drop":
        child = parent.filter(ids[-1:], axis=axis, invert=True, inplace=False) if len(ids) > 1 else parent.copy()
    elif how == "sort_same":
        child = parent.sort_order(ids, axis=axis)
    elif how == "sort_rev":
        child = parent.sort_order(ids[::-1], axis=axis)
    elif how == "transpose2":
        child = parent.transpose().transpose()
    elif how == "copy":
        child = parent.copy()
    elif how == "ctor_shared":
        child = Table(parent.matrix_data, parent.ids(axis="observation"), parent.ids(),
                      parent.metadata(axis="observation"), parent.metadata())
    elif how == "merge_self_inter":
        child = parent.merge(parent, sample="intersection", observation="intersection")
    else:
        raise ValueError(how)
    changed, kept = (parent, child) if change_parent else (child, parent)
    cids = [str(i) for i in changed.ids(axis=change_axis)]
    longest = max(len(i) for i in cids)
    if change == "rename_one":
        changed.update_ids({cids[0]: cids[0] + "_" * (longest + 2)}, axis=change_axis, strict=False, inplace=True)
    elif change == "swap_two":
        if len(cids) > 1:
            changed.update_ids({cids[0]: cids[-1], cids[-1]: cids[0]}, axis=change_axis, strict=False, inplace=True)
    elif change == "rotate":
        if len(cids) > 1:
            changed.update_ids({c: cids[(k + 1) % len(cids)] for k, c in enumerate(cids)}, axis=change_axis,
                               strict=True, inplace=True)
    else:
        apply_inplace(changed, {"del_md": "del_md_all"}.get(change, change), change_axis)
    return kept


def build_operand(rec):
    return apply_history(core.build(rec["spec"], rec["route"]), rec["hist"])


def public_obs(r, rrng=None):
    """the result as seen through ids / get_value_by_ids / metadata(id, axis); the order in which the
    accessors are asked is random when `rrng` is given"""
    parts = ["ids", "cells", "md"]
    if rrng is not None:
        rrng.shuffle(parts)
    got = {}
    obs = samp = None
    for part in parts:
        if obs is None:
            # every part needs the IDs; which axis is asked first is random too
            if rrng is not None and rrng.random() < 0.5:
                samp = [str(i) for i in r.ids()]
                obs = [str(i) for i in r.ids(axis="observation")]
            else:
                obs = [str(i) for i in r.ids(axis="observation")]
                samp = [str(i) for i in r.ids()]
        if part == "cells":
            pairs = [(i, j) for i in range(len(obs)) for j in range(len(samp))]
            if rrng is not None:
                rrng.shuffle(pairs)
            rows = [[None] * len(samp) for _ in obs]
            for i, j in pairs:
                rows[i][j] = core.frac(r.get_value_by_ids(obs[i], samp[j]))
            got["rows"] = rows
        elif part == "md":
            omd = smd = None
            if r.metadata(axis="observation") is not None:
                omd = [core.canon_md_entry(r.metadata(o, "observation")) for o in obs]
            if r.metadata(axis="sample") is not None:
                smd = [core.canon_md_entry(r.metadata(x, "sample")) for x in samp]
            got["omd"], got["smd"] = omd, smd
    return {"obs": obs, "samp": samp, "rows": got["rows"], "omd": got["omd"], "smd": got["smd"], "type": r.type}


def strip_null(o):
    """the observation without metadata fields whose value is None (reading a missing field of table metadata
    by subscription leaves such a field behind; it reads as None before and after)"""
    o = dict(o)
    for key in ("omd", "smd"):
        if o.get(key) is not None:
            o[key] = [{k: v for k, v in e.items() if v != "null"} for e in o[key]]
    return o


def by_id(o):
    """order-free view of an observation (IDs -> cells / metadata), for unchanged-ness checks"""
    cells = {(a, b): o["rows"][i][j] for i, a in enumerate(o["obs"]) for j, b in enumerate(o["samp"])}
    omd = None if o["omd"] is None else {a: o["omd"][i] for i, a in enumerate(o["obs"])}
    smd = None if o["smd"] is None else {b: o["smd"][j] for j, b in enumerate(o["samp"])}
    return (o["obs"], o["samp"], cells, omd, smd)


def coherent(t):
    """the table answers by-ID queries through its own lookups exactly as its matrix/ID arrays say"""
    try:
        return coherent_(t)
    except Exception:       # a lookup that refuses one of the table's own IDs is not coherent either
        return False


def coherent_(t):
    pos = core.table_obs(t)
    pub = public_obs(t)
    if by_id({k: pos[k] for k in ("obs", "samp", "rows", "omd", "smd")}) != by_id(pub):
        return False
    for ax, ids in (("observation", pos["obs"]), ("sample", pos["samp"])):
        for k, i in enumerate(ids):
            if not t.exists(i, axis=ax) or t.index(i, axis=ax) != k:
                return False
        for u in core.tricky_unknown_ids(ids)[:6]:
            if t.exists(u, axis=ax):
                return False
    return True


INPLACE_OPS = ["scale2", "pa", "rename_longer", "del_md_key", "del_md_all", "mutate_md_dict", "add_md",
               "filter_inplace"]


def apply_inplace(t, op, axis):
    """an in-place change that keeps the table object (and, where the library does, its matrix / ID arrays /
    metadata objects); returns False when it does not apply to this table"""
    ids = [str(i) for i in t.ids(axis=axis)]
    if not ids or t.shape[0] == 0 or t.shape[1] == 0:
        return False
    if op == "scale2":
        t.transform(lambda v, i, m: v * 2, axis=axis, inplace=True)
    elif op == "pa":
        t.pa(inplace=True)
    elif op == "rename_longer":
        longest = max(len(i) for i in ids)
        new = ids[0] + "_" * (longest + 3)
        t.update_ids({ids[0]: new}, axis=axis, strict=False, inplace=True)
    elif op == "del_md_key":
        md = t.metadata(axis=axis)
        if md is None or "grp" not in md[0]:
            return False
        t.del_metadata(keys=["grp"], axis=axis)
    elif op == "del_md_all":
        if t.metadata(axis=axis) is None:
            return False
        t.del_metadata(axis=axis)
    elif op == "mutate_md_dict":
        md = t.metadata(axis=axis)
        if md is None:
            return False
        md[0]["grp"] = "mutated-in-place"
    elif op == "add_md":
        t.add_metadata({ids[-1]: {"added": 1}}, axis=axis)
    elif op == "filter_inplace":
        if len(ids) < 2:
            return False
        t.filter([ids[-1]], axis=axis, invert=True, inplace=True)
    else:
        raise ValueError(op)
    return True


class Tracer:
    """records which implementation runs at each merge step, by wrapping the two methods"""

    def __enter__(self):
        from biom import Table
        self.T = Table
        self.events = []
        self.orig_merge = Table.merge
        self.orig_fast = Table._fast_merge
        ev = self.events
        om, of = self.orig_merge, self.orig_fast

        def merge(this, *a, **k):
            ev.append("M")
            return om(this, *a, **k)

        def _fast_merge(this, *a, **k):
            ev.append("F")
            return of(this, *a, **k)
        Table.merge = merge
        Table._fast_merge = _fast_merge
        return self

    def __exit__(self, *exc):
        self.T.merge = self.orig_merge
        self.T._fast_merge = self.orig_fast
        return False

    def steps(self, is_list):
        ev = self.events[1:]            # drop the top-level call
        if not is_list:
            return ["fast" if ev[:1] == ["F"] else "general"]
        if ev[:1] == ["F"]:
            return ["fast"]
        out = []
        for i, e in enumerate(ev):
            if e == "M":
                out.append("fast" if ev[i + 1:i + 2] == ["F"] else "general")
        return out


def merge_args(recipe, others):
    form = recipe["form"]
    kw = {"sample": recipe["ms"], "observation": recipe["mo"]}
    names = {}
    for key, arg in (("fs", "sample_metadata_f"), ("fo", "observation_metadata_f")):
        p = recipe[key]
        if p == "default":
            names[key] = "prefer_self"
        elif p is None:
            kw[arg] = None
            names[key] = None
        else:
            kw[arg] = py_f(p)
            names[key] = p
    if form == "single":
        arg = others[0]
    elif form == "list":
        arg = list(others)
    else:
        arg = tuple(others)
    args = [arg]
    if recipe.get("positional"):
        # the same call with the optional arguments passed by position
        args += [kw.pop("sample"), kw.pop("observation")]
        if "sample_metadata_f" in kw and "observation_metadata_f" in kw:
            args += [kw.pop("sample_metadata_f"), kw.pop("observation_metadata_f")]
    return args, kw, names


def merge_once(ctx, recipe, tables, tags, rrng, label, shared=None):
    """observe the operands, run the real merge, observe the outcome, ask Lean; returns (r, outcome, before)"""
    import warnings
    import biom.err
    a, others = tables[0], tables[1:]
    form = recipe["form"]
    args, kw, names = merge_args(recipe, others)
    if shared is not None:
        # the same (mutable) list object is handed to every call of this case
        if "arg" in shared and isinstance(args[0], list):
            args[0] = shared["arg"]
        shared["arg"] = args[0]
    try:
        before = [core.table_obs(t) for t in tables]
    except Exception as e:
        # the histories only double / add finite values far below the overflow threshold and keep IDs readable
        ctx.case({"recipe": recipe, "stage": label}, nontrivial=False)
        ctx.fail({"recipe": recipe, "stage": label}, "history:operand-unreadable-" + core.err_name(e),
                 tuple(tags) + ("history",))
        return None, None, None
    profile = recipe.get("profile")
    if profile and any(len(b["obs"]) == 0 or len(b["samp"]) == 0 for b in before):
        profile = None
    strict_warnings = bool(recipe.get("warn_error")) and not (profile and "warn" in profile.values())
    with Tracer() as tr, warnings.catch_warnings():
        # a share of the calls runs with warnings turned into exceptions: a merge has nothing to warn about
        warnings.simplefilter("error" if strict_warnings else "ignore")
        try:
            if profile:
                with biom.err.errstate(**profile):
                    r = a.merge(*args, **kw)
            else:
                r = a.merge(*args, **kw)
            # by-ID observation right after the call, before any other accessor touches the result
            outcome = {"ok": public_obs(r, rrng)}
        except Exception as e:          # every exception class is reported to the predicate
            outcome = {"error": core.err_name(e)}
            r = None
    steps = tr.steps(form != "single")
    req = {"a": before[0], "others": before[1:], "list": form != "single", "ms": recipe["ms"], "mo": recipe["mo"],
           "fs": names["fs"], "fo": names["fo"], "outcome": outcome, "trace": steps}
    # non-trivial: two or more operands each holding a non-zero value, more than one cell overall
    nz = [any(v != "0" for row in b["rows"] for v in row) for b in before]
    cells = len({o for b in before for o in b["obs"]}) * len({x for b in before for x in b["samp"]})
    ctx.case({k: req[k] for k in ("a", "others", "list", "ms", "mo", "fs", "fo")},
             nontrivial=len(before) >= 2 and sum(nz) >= 2 and cells >= 2)
    resp = ctx.driver.ask(req)
    case = {"recipe": recipe, "request": req, "stage": label}
    if isinstance(args[0], list) and not (len(args[0]) == len(others) and all(x is y for x, y in zip(args[0], others))):
        ctx.fail(case, "argument:list-of-others-changed-by-merge", tags)
    # a function with f(None, None) != "no metadata" is in the domain only where no step takes the fast path
    judged = not ((names["fs"] in NONNEUTRAL or names["fo"] in NONNEUTRAL) and "fast" in resp["model_trace"])
    if names["fs"] in NONNEUTRAL or names["fo"] in NONNEUTRAL:
        ctx.count("non-neutral-f=%s" % ("judged (general path)" if judged else "not judged (model: fast step)"))
    branch = "fast" if steps == ["fast"] else ("general" if form == "single" else "folded:" + "".join(x[0] for x in steps))
    ctx.count("branch=" + (branch if len(branch) < 14 else branch[:14] + "+"))
    ctx.count("form=%s k=%d" % (form, len(others)))
    ctx.count("modes=%s/%s" % (recipe["ms"][:5], recipe["mo"][:5]))
    ctx.count("outcome=" + ("ok" if "ok" in outcome else outcome["error"]))
    ctx.count("policy(sample)=%s" % recipe["fs"])
    ctx.count("policy(observation)=%s" % recipe["fo"])
    ctx.count("layout(operands)=%s" % "/".join(t.matrix_data.getformat() for t in tables[:2]))
    mdcfg = "".join("1" if (b["omd"] is not None or b["smd"] is not None) else "0" for b in before[:3])
    ctx.count("md(operands)=" + mdcfg)
    if "ok" in outcome:
        ctx.count("result-md=%s" % ("none" if (outcome["ok"]["omd"] is None and outcome["ok"]["smd"] is None) else "some"))
        ctx.count("order-as-model=%s" % resp.get("same_order"))
    if not judged:
        pass
    elif not resp["model_holds"]:
        ctx.diverge(case, "theorem model_holds contradicted by the driver", tags, detail={"model": resp["model"]})
    if not judged:
        pass
    elif not resp["holds"]:
        ctx.fail(case, resp["clause"], tags, detail={"model": resp["model"], "model_trace": resp["model_trace"]})
    elif not resp["agree"]:
        ctx.diverge(case, "outcome (by ID) or branch trace differs from the model", tags,
                    detail={"model": resp["model"], "model_trace": resp["model_trace"]})
    # merging (or refusing to) leaves every operand as it was, and coherent with its own lookups
    # an empty list of others is outside the property (the fold returns the receiver itself)
    same_obj = r is not None and len(others) == 0 and any(r is t for t in tables)
    for k, t in enumerate(tables):
        try:
            now = core.table_obs(t)
        except Exception:   # e.g. a value that is no longer finite
            now = None
        was = before[k]
        if now is not None and (names["fs"] in SUBSCRIPTING or names["fo"] in SUBSCRIPTING):
            now, was = strip_null(now), strip_null(was)
        if now != was:
            ctx.fail(case, "operands:changed-by-merge" if r is not None else "operands:changed-by-refused-merge",
                     tuple(tags) + ("operand=%d" % k,))
        elif (r is None or recipe.get("coherence")) and not coherent(t):
            ctx.fail(case, "operands:incoherent-after-merge", tuple(tags) + ("operand=%d" % k,))
    return (None if same_obj else r), outcome, before


def run_case(ctx, recipe, tags=()):
    """recipe: {"ops": [operand records], "form": single|list|tuple, "ms", "mo", "fs", "fo"} plus optional
    hardening fields: "poke" (seed: leave operands in a random layout by read-only calls), "read" (seed:
    accessor order), "positional", "profile" (errstate keywords), "coherence",
    "then": {"kind": "again", "which": i, "op": .., "axis": ..}   second merge after an in-place change, or
            {"kind": "alias", "target": "result"|i, "op": .., "axis": ..}   every other live table unchanged.
    fs/fo: "default" (argument not passed), a family name, or None"""
    import random
    try:
        tables = [build_operand(r) for r in recipe["ops"]]
    except Exception as e:
        # the histories are themselves valid calls (self-merges never have an empty axis): a refusal
        # or crash while preparing an operand is a failure of the code under test
        ctx.case({"recipe": recipe}, nontrivial=False)
        ctx.fail({"recipe": recipe}, "history:unexpected-" + core.err_name(e), tuple(tags) + ("history",))
        return None, None, None
    if recipe.get("poke") is not None:
        prng = random.Random(recipe["poke"])
        for t in tables:
            for what in core.poke_layout(t, prng, max_reads=3):
                ctx.count("poke=" + what)
            # the last read decides the layout: end on the sample axis (CSC) for a good share
            if prng.random() < 0.5 and t.shape[0] > 0 and t.shape[1] > 0:
                try:
                    t.data(t.ids()[prng.randrange(t.shape[1])], axis="sample")
                except Exception as e:      # an operand that refuses to read one of its own IDs
                    ctx.case({"recipe": recipe, "stage": "poke"}, nontrivial=False)
                    ctx.fail({"recipe": recipe, "stage": "poke"}, "history:operand-unreadable-" + core.err_name(e),
                             tuple(tags) + ("history",))
                    return None, None, None
    rrng = random.Random(recipe["read"]) if recipe.get("read") is not None else None
    shared = {}
    r, outcome, before = merge_once(ctx, recipe, tables, tags, rrng, "first", shared)
    then = recipe.get("then")
    if not then or before is None:
        return r, outcome, before
    if then["kind"] == "again":
        # identity-keyed state: the same call again after an in-place change of one operand is judged
        # against the operand's CURRENT content
        t = tables[then["which"] % len(tables)]
        try:
            applied = apply_inplace(t, then["op"], then["axis"])
        except Exception as e:
            ctx.count("again:%s-refused=%s" % (then["op"], core.err_name(e)))
            applied = False
        if applied:
            ctx.count("again=" + then["op"])
            merge_once(ctx, recipe, tables, tuple(tags) + ("again", "op=" + then["op"]), rrng, "again", shared)
    elif then["kind"] == "alias" and r is not None:
        try:
            r_before = public_obs(r)
            ops_before = [core.table_obs(t) for t in tables]
        except Exception as e:
            ctx.fail({"recipe": recipe, "stage": "alias"}, "alias:live-table-unreadable-" + core.err_name(e),
                     tuple(tags) + ("alias",))
            return r, outcome, before
        live = [("result", r)] + [(k, t) for k, t in enumerate(tables)]
        target = then["target"] if then["target"] == "result" else then["target"] % len(tables)
        tobj = r if target == "result" else tables[target]
        try:
            applied = apply_inplace(tobj, then["op"], then["axis"])
        except Exception as e:
            ctx.count("alias:%s-refused=%s" % (then["op"], core.err_name(e)))
            applied = False
        if applied:
            ctx.count("alias=%s on %s" % (then["op"], "result" if target == "result" else "operand"))
            case = {"recipe": recipe, "stage": "alias"}
            for name, t in live:
                if name == target:
                    continue
                if t is tobj:
                    ctx.fail(case, "alias:result-is-an-operand", tuple(tags) + ("alias", "same=%s" % name))
                    continue
                try:
                    if name == "result":
                        ok = by_id(public_obs(t)) == by_id(r_before)
                    else:
                        ok = core.table_obs(t) == ops_before[name]
                except Exception:
                    ok = False
                if not ok:
                    ctx.fail(case, "alias:other-table-changed", tuple(tags) + ("alias", "op=" + then["op"],
                                                                               "changed=%s" % name, "target=%s" % target))
                elif not coherent(t):
                    ctx.fail(case, "alias:other-table-incoherent", tuple(tags) + ("alias", "op=" + then["op"]))
    return r, outcome, before


# ----------------------------------------------------------------------------- generators
def id_sets(rng, k, pattern, prefix, max_n):
    """k ID lists with a chosen overlap pattern between the receiver and the others"""
    pool = core.gen_ids(rng, 2 * max_n + 2, prefix, "mixed")
    if rng.random() < 0.3:
        # NFC / NFD spellings of one text are DISTINCT IDs; texts with '%', quotes, U+2028/2029/0085, form feed, ...
        special = [prefix + x for x in core.twin_ids(rng, 2) + rng.sample(core.NASTY_TEXTS, 3)]
        for x in special:
            if x not in pool:
                pool.insert(rng.randrange(min(len(pool), 2 * max_n) + 1), x)
    n = rng.randint(1, max_n)
    base = pool[:n]
    rest = pool[n:]
    out = [list(base)]
    for j in range(1, k):
        if pattern == "identical":
            ids = list(base)
        elif pattern == "permuted":
            ids = list(base)
            rng.shuffle(ids)
            if n > 1 and ids == base:
                ids = ids[1:] + ids[:1]
        elif pattern == "disjoint":
            m = rng.randint(1, max_n)
            ids = rest[(j - 1) * 2:(j - 1) * 2 + m][:max_n] or [rest[0]]
            ids = [x for x in ids if x not in base] or [prefix + "zz%d" % j]
        elif pattern == "nested_in":      # other inside the receiver
            m = rng.randint(1, n)
            ids = rng.sample(base, m)
        elif pattern == "nested_out":     # receiver inside the other
            extra = rest[:rng.randint(1, max(1, max_n - n))]
            ids = list(base) + extra
            rng.shuffle(ids)
        elif pattern == "partial":
            keep = rng.sample(base, rng.randint(1, n)) if n > 1 else list(base)
            if n > 1 and len(keep) == n:
                keep = keep[:-1]
            extra = rest[:rng.randint(1, max(1, max_n - len(keep)))]
            ids = keep + extra
            rng.shuffle(ids)
        elif pattern == "tricky":
            # the other's new IDs look like the receiver's (extensions, prefixes, case variants, blanks) and are
            # longer than every ID of the receiver (fixed-width ID arrays), end in a blank / newline, or are
            # non-ASCII with a UTF-8 length above their character count
            longest = max(len(x) for x in base)
            look = core.tricky_unknown_ids(base)
            rng.shuffle(look)
            extra = look[:rng.randint(1, 3)] + [rng.choice([base[0] + "\n", base[-1] + " ", prefix + "é" * (longest + 1),
                                                            prefix + "日本" * longest, base[0] + "_" * (longest + 2)])]
            keep = rng.sample(base, rng.randint(0, n))
            ids = [x for x in dict.fromkeys(keep + extra)]
            rng.shuffle(ids)
        else:
            raise ValueError(pattern)
        out.append(ids)
    return out


def gen_md(rng, ids, who, kind):
    """metadata that differs between operands on shared IDs (key `who`), optionally with holes"""
    if kind == "none":
        return None
    md = []
    for i, id_ in enumerate(ids):
        e = {"who": who, "grp": rng.choice(["a", "b"])}
        if kind in ("rich", "holes"):
            e["depth"] = rng.randint(0, 3)
            e["taxonomy"] = ["k__%s" % rng.choice("AB"), "p__%s" % who]
        if kind == "own-key":
            e = {"only_%s" % who: i}
        if kind == "shared":
            # the annotation depends on the ID only: operands listing the same IDs carry EQUAL entries
            e = {"grp": "g%d" % (len(id_) % 2), "depth": sum(map(ord, id_)) % 4, "taxonomy": ["k__" + id_[:2], "p__x"]}
            if sum(map(ord, id_)) % 5 == 0:
                del e["depth"]              # entries with different key sets
        if kind == "nasty":
            tw = core.twin_ids(rng, 1)
            e = {"who": who, rng.choice(core.NASTY_TEXTS): rng.choice(core.NASTY_TEXTS), tw[0]: tw[1], tw[1]: i}
        md.append(e)
    if kind == "holes" and len(md) > 1:
        md[rng.randrange(len(md))] = None
    return md


def gen_value(rng, regime):
    """one value regime per case keeps every sum under test exact in binary64"""
    if regime == "small":
        return core.gen_value(rng, rng.choice(VALUE_CLASSES))
    if regime == "bigint":      # odd integers above 2**24 (need more than 24 significant bits), a few small counts
        return float(rng.randrange(2 ** 24 + 1, 2 ** 40, 2)) if rng.random() < 0.8 else float(rng.randint(1, 9))
    if regime == "fine":        # k / 2**30 with k odd: up to 36 significant bits, 30 fractional bits
        return rng.randrange(1, 2 ** 36, 2) / float(2 ** 30)
    if regime == "denormal":    # multiples of the smallest positive double
        return rng.randint(1, 1000) * 5e-324
    if regime == "nondyadic":   # any double; used only where each cell has a single contributing operand
        while True:
            v = rng.choice([0.1, 1.0 / 3, 2.0 / 3, 0.1234567891, 1e-7, 123456789.123, 16777217.0, 1e200, -0.7,
                            core.gen_value(rng, "bits"), core.gen_value(rng, "tiny")])
            if abs(v) < 1e201:      # histories may double a value a few times
                return v
    raise ValueError(regime)


def gen_grid(rng, n, m, density, regime):
    g = [[gen_value(rng, regime) if rng.random() < density else 0.0 for _ in range(m)] for _ in range(n)]
    if n > 1 and rng.random() < 0.2:
        g[rng.randrange(n)] = [0.0] * m
    if m > 1 and rng.random() < 0.2:
        j = rng.randrange(m)
        for r in g:
            r[j] = 0.0
    return g


def gen_operand(rng, obs, samp, who, md_o, md_s, allow_hist=True, max_n=4, regime="small"):
    rows = gen_grid(rng, len(obs), len(samp), rng.choice([0.3, 0.6, 0.9, 1.0]), regime)
    spec = {"obs": list(obs), "samp": list(samp), "rows": rows, "omd": gen_md(rng, obs, who, md_o),
            "smd": gen_md(rng, samp, who, md_s), "type": rng.choice([None, "OTU table"])}
    hist = []
    if allow_hist and rng.random() < 0.45:
        h = rng.choice(HIST)
        if h == "premerge" and regime == "nondyadic":
            h = "copy"      # a prior merge would give both operands the IDs Opre/Spre: two contributors per cell
        if h == "derived":
            h = ["derived", rng.choice(DERIVE_HOW), rng.choice(["sample", "observation"]), rng.choice(DERIVE_CHANGE),
                 rng.choice(["sample", "observation"]), rng.random() < 0.7]
        if h == "premerge":
            o2 = rng.sample(obs, rng.randint(1, len(obs))) + ["Opre"]
            s2 = rng.sample(samp, rng.randint(1, len(samp))) + ["Spre"]
            spec2 = {"obs": o2, "samp": s2,
                     "rows": gen_grid(rng, len(o2), len(s2), 0.7, regime),
                     "omd": gen_md(rng, o2, "pre", rng.choice(["none", "plain"])),
                     "smd": gen_md(rng, s2, "pre", rng.choice(["none", "plain"])), "type": None}
            h = ["premerge", spec2, rng.choice(core.ROUTES), rng.choice(MODES), rng.choice(MODES)]
        hist.append(h)
    return {"spec": spec, "route": rng.choice(core.ROUTES), "hist": hist}


MD_KINDS = ["none", "plain", "rich", "holes", "own-key"]


def gen_recipe(rng, k, opat, spat, ms, mo, mdcfg, fs, fo, form, max_n=4, allow_hist=True, regime=None):
    """mdcfg: per operand a pair (obs kind, samp kind)"""
    if regime is None:
        regime = rng.choice(REGIMES)
    if regime == "nondyadic" and not (k == 1 and "disjoint" in (opat, spat)):
        regime = "small"        # arbitrary doubles need a single contributor per cell
    # the same names on both axes (an ID text may be an observation and a sample) for a share of the cases
    po, ps = ("N", "N") if rng.random() < 0.15 else ("O", "S")
    osets = id_sets(rng, k + 1, opat, po, max_n)
    ssets = id_sets(rng, k + 1, spat, ps, max_n)
    ops = []
    for j in range(k + 1):
        mo_k, ms_k = mdcfg[j]
        ops.append(gen_operand(rng, osets[j], ssets[j], "t%d" % j, mo_k, ms_k, allow_hist, max_n, regime))
    return {"ops": ops, "form": form, "ms": ms, "mo": mo, "fs": fs, "fo": fo, "regime": regime}


def md_config(rng, which, k):
    """which: neither | self | other | both — who carries metadata (on one or both axes)"""
    def some():
        c = rng.choice([("plain", "plain"), ("rich", "none"), ("none", "plain"), ("holes", "plain"),
                        ("own-key", "own-key"), ("plain", "holes"), ("nasty", "plain"), ("none", "nasty")])
        return c
    if which == "shared":
        c = rng.choice([("shared", "shared"), ("shared", "none"), ("none", "shared"), ("shared", "plain")])
        return [c for _ in range(k + 1)]
    cfg = []
    for j in range(k + 1):
        has = (which == "both") or (which == "self" and j == 0) or (which == "other" and j == k) or \
              (which == "mixed" and rng.random() < 0.5)
        cfg.append(some() if has else ("none", "none"))
    return cfg


def policy(rng):
    c = rng.random()
    if c < 0.35:
        return "default"
    if c < 0.45:
        return None
    if c < 0.57:
        return rng.choice(NONNEUTRAL)
    return rng.choice(FNAMES)


# ----------------------------------------------------------------------------- fixed corpus
def fixed_corpus():
    """original failing inputs of the repaired defects, run first"""
    A = {"obs": ["o1", "o2"], "samp": ["s1", "s2"], "rows": [[1.0, 2.0], [3.0, 4.0]], "omd": None, "smd": None,
         "type": None}
    B = {"obs": ["o2", "o3"], "samp": ["s2", "s3"], "rows": [[1.0, 2.0], [3.0, 4.0]],
         "omd": [{"k": "x"}, {"k": "y"}], "smd": [{"m": 1}, {"m": 2}], "type": None}
    C = {"obs": ["o2", "o3"], "samp": ["s2", "s3"], "rows": [[1.0, 2.0], [3.0, 4.0]], "omd": None, "smd": None,
         "type": None}

    def op(s):
        return {"spec": copy.deepcopy(s), "route": "dense", "hist": []}

    def rc(ops, form="single", ms="union", mo="union", fs="default", fo="default"):
        return {"ops": [op(s) for s in ops], "form": form, "ms": ms, "mo": mo, "fs": fs, "fo": fo}
    out = [
        # e8e86b3c: receiver without metadata + other with metadata, union/union
        ("fixed:e8e86b3c", rc([A, B])),
        ("fixed:e8e86b3c", rc([A, B], form="list")),
        ("fixed:e8e86b3c", rc([A, B, B], form="list")),
        ("fixed:e8e86b3c", rc([A, B, B], form="tuple")),
        ("fixed:e8e86b3c", rc([B, A])),
        ("fixed:e8e86b3c", rc([A, C, B], form="list")),
        # 7991d3d0: a None metadata function reaching the general path raised TypeError
        ("fixed:7991d3d0", rc([A, C], ms="intersection", fs=None, fo=None)),
        ("fixed:7991d3d0", rc([A, C], mo="intersection", fs=None, fo=None)),
        ("fixed:7991d3d0", rc([A, B], fs=None)),
        ("fixed:7991d3d0", rc([A, B], fo=None)),
        ("fixed:7991d3d0", rc([B, A], fs=None)),
        ("fixed:7991d3d0", rc([A, B], ms="intersection", mo="intersection", fs=None, fo=None)),
        ("fixed:7991d3d0", rc([A, B, C], form="list", fs=None)),
        ("fixed:7991d3d0", rc([A, B], fs=None, fo=None)),
        ("fixed:7991d3d0", rc([A, C], fs=None)),
    ]
    return out


def degenerate_corpus():
    """empty intersections (must raise), empty unions (0xM operands), empty list of others"""
    def t(obs, samp, md=False, val=1.0):
        return {"spec": {"obs": obs, "samp": samp, "rows": [[val] * len(samp) for _ in obs],
                         "omd": [{"k": o} for o in obs] if md and obs else None,
                         "smd": [{"k": s} for s in samp] if md and samp else None, "type": None},
                "route": "dense", "hist": []}
    out = []
    X, Y = t(["o1", "o2"], ["s1", "s2"]), t(["o3"], ["s1", "s3"])
    Xm, Ym = t(["o1", "o2"], ["s1", "s2"], True), t(["o3"], ["s1", "s3"], True)
    Z = t(["o9"], ["s9"])
    for a, b in ((X, Y), (Xm, Y), (X, Ym), (Xm, Ym), (X, Z), (Xm, Z)):
        for ms, mo in itertools.product(MODES, MODES):
            for form in ("single", "list"):
                out.append(("degenerate", {"ops": [a, b], "form": form, "ms": ms, "mo": mo, "fs": "default",
                                           "fo": "default"}))
    E = t([], ["s1", "s2"])
    Em = t([], ["s1", "s2"], True)
    for a, b in ((E, E), (E, X), (X, E), (Em, E), (E, Em), (Em, X), (X, Em)):
        for ms, mo in itertools.product(MODES, MODES):
            out.append(("degenerate", {"ops": [a, b], "form": "single", "ms": ms, "mo": mo, "fs": "default",
                                       "fo": "default"}))
    for a in (X, Xm):
        for ms, mo in itertools.product(MODES, MODES):
            for form in ("list", "tuple"):
                out.append(("degenerate", {"ops": [a], "form": form, "ms": ms, "mo": mo, "fs": "default",
                                           "fo": "default"}))
    # a union axis on which the first two operands have no ID at all: the first pairwise step refuses
    for ops in ((E, Em, X), (Em, E, X), (E, E, X), (X, E, Em)):
        for form in ("list", "tuple"):
            out.append(("degenerate", {"ops": list(ops), "form": form, "ms": "union", "mo": "union", "fs": "default",
                                       "fo": "default"}))
    # three operands whose pairwise intersections are non-empty but whose common intersection is empty
    P, Q, R = t(["o1", "o2"], ["s1"]), t(["o2", "o3"], ["s1"]), t(["o1", "o3"], ["s1"])
    for ops in ((P, Q, R), (R, P, Q)):
        for ms, mo in itertools.product(MODES, MODES):
            out.append(("degenerate", {"ops": list(ops), "form": "list", "ms": ms, "mo": mo, "fs": "default",
                                       "fo": "default"}))
    return out


def harden(rng, recipe, then=True):
    """hardening fields (see run_case): layout left behind, accessor order, positional arguments, error
    profile, coherence of the operands, a second call after an in-place change, aliasing"""
    if rng.random() < 0.6:
        recipe["poke"] = rng.randrange(1 << 30)
    if rng.random() < 0.6:
        recipe["read"] = rng.randrange(1 << 30)
    if rng.random() < 0.15:
        recipe["positional"] = True
    if rng.random() < 0.2:
        recipe["profile"] = rng.choice([{"empty": "raise"}, {"empty": "warn"}, {"empty": "call"}, {"all": "raise"},
                                        {"all": "warn"}])
    if rng.random() < 0.3:
        recipe["warn_error"] = True
    if rng.random() < 0.1 or any(isinstance(h, list) and h[0] == "derived" for o in recipe["ops"] for h in o["hist"]):
        recipe["coherence"] = True
    c = rng.random()
    k = len(recipe["ops"])
    # presence/absence turns values into 1: next to denormals the sum would no longer be exact
    inplace_ops = [o for o in INPLACE_OPS if not (o == "pa" and recipe.get("regime") == "denormal")]
    if then and k >= 2 and c < 0.15:
        recipe["then"] = {"kind": "again", "which": rng.randrange(k), "op": rng.choice(inplace_ops),
                          "axis": rng.choice(["sample", "observation"])}
    elif then and k >= 2 and c < 0.3:
        recipe["then"] = {"kind": "alias", "target": rng.choice(["result", "result", 0, 1, k - 1]),
                          "op": rng.choice(INPLACE_OPS), "axis": rng.choice(["sample", "observation"])}
    return recipe


def wide_recipe(rng, axis, n_axis=None, fast=False):
    """size thresholds: >= 64 IDs on an axis, the other operand's IDs in another order, partly new and longer;
    fast=True: nothing carries metadata and both modes are union, i.e. the call is served by the fast path"""
    regime = rng.choice(["small", "bigint", "fine"])
    sa = core.wide_spec(rng, n_axis=n_axis, axis=axis, classes=VALUE_CLASSES, md=(not fast) and rng.random() < 0.5)
    sa["rows"] = gen_grid(rng, len(sa["obs"]), len(sa["samp"]), 0.6, regime)
    key = "samp" if axis == "sample" else "obs"
    okey = "obs" if axis == "sample" else "samp"
    ids = list(sa[key])
    keep = rng.sample(ids, rng.randint(len(ids) // 2, len(ids)))
    new = ["%s_new_%s" % (ids[-1], "x" * (i % 5)) + str(i) for i in range(rng.randint(1, 8))]
    bids = keep + new
    rng.shuffle(bids)
    oids = list(sa[okey])
    rng.shuffle(oids)
    oids = oids[:rng.randint(1, len(oids))] + [oids[0] + "_longer_than_all"]
    sb = {key: bids, okey: oids, "type": None, "omd": None, "smd": None}
    n, m = len(sb["obs"]), len(sb["samp"])
    sb["rows"] = gen_grid(rng, n, m, 0.6, regime)
    if (not fast) and rng.random() < 0.5:
        sb["omd"] = gen_md(rng, sb["obs"], "t1", "plain")
        sb["smd"] = gen_md(rng, sb["samp"], "t1", "plain")
    ops = [{"spec": sa, "route": rng.choice(core.ROUTES), "hist": []},
           {"spec": sb, "route": rng.choice(core.ROUTES), "hist": []}]
    if rng.random() < 0.5:
        ops.reverse()
    return {"ops": ops, "form": rng.choice(["single", "list"]), "ms": "union" if fast else rng.choice(MODES),
            "mo": "union" if fast else rng.choice(MODES), "fs": policy(rng), "fo": policy(rng)}


def many_recipe(rng, k):
    """operand COUNT thresholds: k others in one call (list / tuple form), small tables over a small ID pool"""
    regime = rng.choice(["small", "bigint", "fine"])
    po = ["Oa", "Ob", "Oc", "Od", "O10"]
    ps = ["Sa", "Sb", "Sc", "S2"]
    which = rng.choice(["neither", "one", "some", "shared"])
    ops = []
    for j in range(k + 1):
        obs = [po[0]] + rng.sample(po[1:], rng.randint(0, 2))
        samp = [ps[0]] + rng.sample(ps[1:], rng.randint(0, 2))
        rng.shuffle(obs)
        rng.shuffle(samp)
        has = (which == "one" and j == k // 2) or (which == "some" and rng.random() < 0.4)
        kind = "shared" if which == "shared" else ("plain" if has else "none")
        spec = {"obs": obs, "samp": samp, "rows": gen_grid(rng, len(obs), len(samp), 0.8, regime),
                "omd": gen_md(rng, obs, "t%d" % j, kind), "smd": gen_md(rng, samp, "t%d" % j, rng.choice([kind, "none"])),
                "type": None}
        ops.append({"spec": spec, "route": rng.choice(core.ROUTES), "hist": []})
    return {"ops": ops, "form": rng.choice(["list", "tuple"]), "ms": rng.choice(MODES), "mo": rng.choice(MODES),
            "fs": policy(rng), "fo": policy(rng), "regime": regime}


def run(ctx):
    rng = ctx.rng
    ctx.rule = ("recipes = (operands built by core.build route + prior history, then left in a random layout by read-only "
                "calls) x form (single/list/tuple, k<=3 others, keyword or positional arguments) x ID overlap pattern per "
                "axis (disjoint, nested either way, partial, identical, permuted, look-alike/longer/non-ASCII new IDs) x "
                "4 mode pairs x metadata on neither/self/other/both x policy (default prefer_self, named custom family, "
                "None) x error profile; fixed corpus of the repaired defects first, then degenerate (empty intersection / "
                "empty union / empty list), systematic product, policy product, wide tables (>= 64 IDs), random; a share "
                "is followed by the same call after an in-place change of an operand, or by an in-place change of the "
                "result / an operand with every other live table required unchanged. non-trivial = at least two operands "
                "holding a non-zero value and more than one cell; distinct = distinct operand contents + arguments")
    ctx.trusted = ["values are small integers / dyadic fractions so that all sums are exact in binary64",
                   "custom metadata functions come from a named family with Lean twins; each maps (None, None) to "
                   "None or {} (domain hypothesis of the property)",
                   "the branch taken is observed by wrapping Table.merge / Table._fast_merge from outside",
                   "operand-unchanged / aliasing / coherence clauses are evaluated by the harness (Python comparison of "
                   "canonical observations), not by Lean"]
    ctx.assumptions = ["float addition is exact on the generated values: one regime per case — small integers / dyadic "
                       "fractions (<= 6 fractional bits), odd integers in (2**24, 2**40), odd k / 2**30 (k < 2**36), "
                       "multiples of 5e-324, each with <= 16 terms per cell; arbitrary doubles only in pairs whose IDs are "
                       "disjoint on one axis (a single contributor per cell)"]
    for tag, recipe in fixed_corpus():
        run_case(ctx, recipe, (tag, "fixed"))
    # process-level state: unusual optional arguments early, default calls judged later (fixed corpus again at the end)
    for fs, fo in (("tag", "union_always"), (None, "drop"), ("both_only", None)):
        run_case(ctx, harden(rng, gen_recipe(rng, 2, "partial", "partial", "union", "intersection",
                                             md_config(rng, "both", 2), fs, fo, "list")), ("early-custom",))
    for tag, recipe in degenerate_corpus():
        run_case(ctx, recipe, (tag,))
    # systematic: overlap pattern on each axis x modes x who carries metadata
    pats = PATTERNS
    for opat in pats:
        for spat in pats:
            for ms, mo in itertools.product(MODES, MODES):
                for which in ("neither", "self", "other", "both", "shared"):
                    fs, fo = policy(rng), policy(rng)
                    form = rng.choice(["single", "single", "list"])
                    recipe = harden(rng, gen_recipe(rng, 1, opat, spat, ms, mo, md_config(rng, which, 1), fs, fo, form))
                    run_case(ctx, recipe, ("systematic", "o=" + opat, "s=" + spat, "md=" + which))
                    ctx.count("pattern(obs)=" + opat)
                    ctx.count("md=" + which)
    # every policy pair on a partial overlap with metadata on both operands, all modes; pair and list form
    for fs, fo in itertools.product(["default", None] + FNAMES, repeat=2):
        ms, mo = rng.choice(MODES), rng.choice(MODES)
        for which, form, k, pat in (("both", "single", 1, "partial"), ("other", "single", 1, "partial"),
                                    ("both", "list", 2, "partial"), ("shared", "single", 1, "identical")):
            recipe = harden(rng, gen_recipe(rng, k, pat, pat, ms, mo, md_config(rng, which, k), fs, fo, form))
            run_case(ctx, recipe, ("policy-product",))
    # size thresholds
    nw = max(1, getattr(ctx, "worker", (0, 1))[1])     # the thorough tier is sharded over worker processes
    for _ in range(6 if ctx.quick() else max(6, 64 // nw)):
        axis = rng.choice(["sample", "observation"])
        run_case(ctx, harden(rng, wide_recipe(rng, axis), then=False), ("wide", "axis=" + axis))
        ctx.count("wide=" + axis)
    # operand counts: up to and beyond 8 / 16 / 32 tables in one call, every mode pair over the run
    counts = [7, 8, 9, 10, 11, 12, 13, 15, 16, 17, 20, 31, 32, 33, 40]
    for j, k in enumerate(counts if ctx.quick() else counts * 3):
        recipe = many_recipe(rng, k)
        recipe["ms"], recipe["mo"] = list(itertools.product(MODES, MODES))[j % 4]
        run_case(ctx, harden(rng, recipe, then=False), ("many", "k=%d" % k))
        ctx.count("many-operands k=%d" % k)
    # one table beyond 512 IDs on an axis
    axis = rng.choice(["sample", "observation"])
    run_case(ctx, harden(rng, wide_recipe(rng, axis, n_axis=rng.choice([513, 520, 600])), then=False),
             ("wide", "over-512", "axis=" + axis))
    ctx.count("wide>512=" + axis)
    # index-width thresholds of the fast path: few IDs on one axis, more than 256 on the other (a buffer sized from one
    # axis and used for the other wraps around), each axis in the wide role
    for axis in ("sample", "observation"):
        for n_axis in ((257, 300) if ctx.quick() else (257, 300, 511, 1000)):
            run_case(ctx, wide_recipe(rng, axis, n_axis=n_axis, fast=True), ("wide", "fast-path", "axis=" + axis))
            ctx.count("wide-fast-path=%s/%d" % (axis, n_axis))
    # random, including k-tuples
    n = 1150 if ctx.quick() else max(4000, 40000 // nw)
    for _ in range(n):
        k = rng.choice([1, 1, 2, 2, 3])
        form = "single" if (k == 1 and rng.random() < 0.5) else rng.choice(["list", "tuple"])
        which = rng.choice(["neither", "neither", "self", "other", "both", "mixed", "shared"])
        ms, mo = rng.choice([("union", "union")] * 3 + list(itertools.product(MODES, MODES)))
        regime = rng.choice(REGIMES)
        opat, spat = rng.choice(pats), rng.choice(pats)
        if regime == "nondyadic":
            # arbitrary doubles: a pair whose IDs are disjoint on one axis, so that no cell has two contributors
            k, form = 1, rng.choice(["single", "list"])
            if rng.random() < 0.5:
                opat = "disjoint"
            else:
                spat = "disjoint"
        recipe = gen_recipe(rng, k, opat, spat, ms, mo, md_config(rng, which, k),
                            policy(rng), policy(rng), form, max_n=4 if ctx.quick() else rng.choice([3, 4, 6]),
                            regime=regime)
        run_case(ctx, harden(rng, recipe), ("random", "k=%d" % k))
        ctx.count("md=" + which)
        ctx.count("regime=" + recipe["regime"])
    # the default calls of the fixed corpus once more, after everything else ran in this process
    for tag, recipe in fixed_corpus():
        run_case(ctx, dict(recipe, poke=rng.randrange(1 << 30), coherence=True), (tag, "fixed", "late"))


def replay(ctx, rec):
    run_case(ctx, rec["case"]["recipe"], ("replay",))
