import json, numpy as np
from biom import Table
from biom.parse import get_axis_indices, direct_slice_data, direct_parse_key, parse_biom_table
t = Table(np.array([[1,2,0],[3,4.,0],[0,0,5]]), ['o1','o2','o3'], ['s1','s2','s3'])
doc = json.loads(t.to_json('x'))
for txt in (json.dumps(doc, separators=(',',':')), json.dumps(doc), json.dumps(doc, indent=2)):
    for ids, ax in ((['s1','s3'],'sample'), (['o2','o3'],'observation')):
        try:
            idxs, new_axis_md = get_axis_indices(txt, ids, ax)
            new_data = direct_slice_data(txt, idxs, ax)
            print(ax, new_data[:60])
        except Exception as e: print(ax, type(e), e)
