import numpy as np
from biom import Table
t = Table(np.array([[1,2,3],[0,1,0],[4,0,5.]]), ['o1','o2','o3'], ['s1','s2','s3'])
u = t.sort_order(['s3','s1','s2'])
seen=[]
u.filter(lambda v,i,m: seen.append((i,v.copy().tolist())) or True, axis='observation', inplace=False)
print(seen, [u.data(i,'observation').tolist() for i in u.ids('observation')])
t2 = Table(np.array([[-1,0,1],[0,0,0],[2,0,0.],[-3,0,1]]), list('abcd'), list('xyz'))
print(t2.remove_empty(inplace=False).ids('observation'), t2.remove_empty(inplace=False).ids('sample'))
