import numpy as np
from biom import Table
t = Table(np.array([[1,2,0],[2,1,3],[3,3,4],[0,2,1.]]), list('abcd'), list('xyz'))
r = t.subsample(3, axis='observation', seed=1)
print(r.ids('observation'), r.sum('observation'), r.sum('sample'))
