import h5py, numpy as np, os
from biom import Table, load_table
t = Table(np.array([[1,2,0],[3,4.,0],[0,0,5]]), ['o1','o2','o3'], ['s1','s2','s3'], [{'k':'x'},{'k':'y'},{'k':'z'}])
with h5py.File('/tmp/e.h5','w') as f: t.to_hdf5(f,'x')
for ids, ax in [(['s1','s3'],'sample'), (['o2'],'observation'), (['s1','zz'],'sample')]:
    try:
        with h5py.File('/tmp/e.h5') as f: r = Table.from_hdf5(f, ids=ids, axis=ax, subset_with_metadata=False); print(r.ids(), r.ids('observation'), r.matrix_data.toarray().tolist())
    except Exception as e: print(type(e), e)
os.remove('/tmp/e.h5')
