import biom.err as e
base = e.geterr()
try:
    with e.errstate(empty='raise'):
        raise RuntimeError
except RuntimeError: pass
print("after exception restored:", e.geterr()==base)
e.seterr(**base)
try:
    e.seterr(empty='warn', bogus='raise')
except KeyError: pass
print("refused unchanged:", e.geterr()==base)
e.seterr(**base)
try:
    e.seterr(all='warn', bogus='raise'); print("all+bogus accepted")
except KeyError: print("all+bogus refused; unchanged:", e.geterr()==base)
e.seterr(**base)
try:
    e.seterr(all='warn', empty='zzz'); print("all+badreaction accepted", e.geterr()==base)
except KeyError: print("all+badreaction refused; unchanged:", e.geterr()==base)
