import numpy as np
from biom import Table
a = Table(np.array([[1,2],[3,4.]]), ['o1','o2'], ['s1','s2'])
b = Table(np.array([[1,2],[3,4.]]), ['o2','o3'], ['s2','s3'], [{'k':'x'},{'k':'y'}], [{'m':1},{'m':2}])
r = a.merge(b)
print(r.metadata(axis='observation'), r.metadata())
r = a.merge([b])
print(r.metadata(axis='observation'), r.metadata())
print(a.merge([b, b]).sum(), b.merge(a).metadata('o3','observation'))
