import numpy as np
from biom import Table
t = Table(np.array([[1,2,0],[3,4.,0]]), ['o1','o2'], ['s1','s2','s3'], None, [{'g':'a'},{'g':'b'},{'g':'c'}])
for ax in ('sample','observation'):
    r = t.collapse(lambda i,m: i, axis=ax, min_group_size=2, norm=False)
    print(ax, r.shape, r.ids(), r.ids('observation'), r.metadata(), r.metadata(axis='observation'))
