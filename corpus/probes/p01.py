import h5py, numpy as np, os
from biom import Table, load_table
from biom.parse import parse_biom_table
t = Table(np.array([[1,2],[3,4.]]), ['ö1','o2'], ['s1','sé2'], [{'k':'x'},{'k':'ü'}])
with h5py.File('/tmp/e.h5','w') as f: t.to_hdf5(f,'x')
try:
    with h5py.File('/tmp/e.h5') as f: r = Table.from_hdf5(f); print(r.ids(), r.ids('observation'), r == t)
except Exception as e: print(type(e), e)
try: print(load_table('/tmp/e.h5')==t)
except Exception as e: print(type(e), e)
os.remove('/tmp/e.h5')
