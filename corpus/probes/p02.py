import numpy as np, json, io
from biom import Table
t = Table(np.array([[1e-7,0.1234567891],[1e300,5e-324]]), ['o"1','o\\2'], ['s1','s2'], table_id='a"b\\c', type='OTU table')
s = t.to_json('gen"by\\x')
d = json.loads(s)
print(d['data'], d['id'], d['generated_by'])
buf = io.StringIO(); t.to_json('gen"by\\x', direct_io=buf)
d2 = json.loads(buf.getvalue()); d2.pop('date'); d.pop('date'); print(d==d2)
print(Table.from_json(json.loads(s)).matrix_data.toarray().tolist())
