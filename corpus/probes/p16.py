import numpy as np
from scipy.sparse import csr_matrix
from biom import Table
m = csr_matrix((np.array([1.,0.,2.]), np.array([0,1,1]), np.array([0,2,3])), shape=(2,2))
a = Table(m, ['o1','o2'], ['s1','s2'])
b = Table(np.array([[1,0],[0,2.]]), ['o1','o2'], ['s1','s2'])
print("eq:", a==b, "nonzero:", list(a.nonzero()), "min:", a.min('observation'))
r = a.rankdata(axis='observation', inplace=False); print("rank:", r.matrix_data.toarray().tolist())
_ = a.nnz; print("eq after nnz:", a==b)
t = Table(np.array([[3,1],[1,3.],[0,2]]), list('abc'), list('xy'))
s = t.subsample(6, seed=0); print(s.matrix_data.nnz, (s.matrix_data.data==0).sum(), list(s.nonzero()), s.matrix_data.toarray().tolist())
s = t.subsample(2, seed=3); print(s.matrix_data.nnz, (s.matrix_data.data==0).sum(), list(s.nonzero()), s.matrix_data.toarray().tolist())
